"""Reference concrete EVM (Cancun subset, infinite gas) - the oracle.

Written from the Yellow Paper / EIP texts, deliberately boring: words are
Python ints, memory is a bytearray, storage is a dict per account.  See
DESIGN.md Appendix B for every modelling decision.

Error kinds (strings) are chosen to match the exception class halmos reports:
Revert, InvalidOpcode, InvalidJumpDestError, StackUnderflowError,
OutOfBoundsRead, WriteInStaticContext, FailCheatcode, plus reference-only
kinds: 'Unsupported' (opcode outside the alphabet: the case makes no claim),
'Limit' (step horizon hit).
"""

from __future__ import annotations

from eth_hash.auto import keccak

M256 = (1 << 256) - 1
M160 = (1 << 160) - 1


def sgn(x):
    return x - (1 << 256) if x >> 255 else x


def u(x):
    return x & M256


class Halt(Exception):
    """exceptional halt of the current frame"""

    def __init__(self, kind, detail=""):
        self.kind, self.detail = kind, detail
        super().__init__(f"{kind} {detail}")


class Unsupported(Exception):
    pass


class Discard(Exception):
    """vm.assume(false): the input is rejected"""


class World:
    def __init__(self):
        self.code = {}  # addr -> bytes (presence = account exists for our purposes)
        self.storage = {}  # addr -> {slot: val}
        self.transient = {}  # addr -> {slot: val}
        self.balance = {}  # addr -> int
        self.logs = []  # (addr, topics tuple, data bytes)
        self.created = []  # addresses handed out, in order
        # block environment (Foundry defaults as in halmos mk_block)
        self.block = dict(basefee=0, chainid=31337, coinbase=0, difficulty=0, gaslimit=2**63 - 1, number=1, timestamp=1)
        self.addr_oracle = None  # callable(kind, index, sender, salt, initcode) -> int
        self.cheats = {}  # addr -> handler(world, frame, data) -> (ok, retdata)
        self.fail_flag = False
        self.steps = 0
        self.max_steps = 200000
        self.trace_calls = []  # (depth, kind, caller, target, value, origin) for observers

    def snapshot(self):
        return (
            dict(self.code),
            {a: dict(s) for a, s in self.storage.items()},
            {a: dict(s) for a, s in self.transient.items()},
            dict(self.balance),
            len(self.logs),
        )

    def restore(self, snap):
        self.code, self.storage, self.transient, self.balance, nlogs = (
            dict(snap[0]),
            {a: dict(s) for a, s in snap[1].items()},
            {a: dict(s) for a, s in snap[2].items()},
            dict(snap[3]),
            snap[4],
        )
        del self.logs[nlogs:]

    def bal(self, a):
        return self.balance.get(a, 0)

    def new_address(self, kind, sender, salt, initcode):
        idx = len(self.created)
        if self.addr_oracle is None:
            a = 0xAAAA0000 + 2 + idx if kind == "CREATE" else 0xBBBB0000 + idx
        else:
            a = self.addr_oracle(kind, idx, sender, salt, initcode)
        self.created.append(a)
        return a


class Msg:
    def __init__(self, target, caller, origin, value, data, static=False, code_addr=None, is_create=False, code=None, depth=1):
        self.target = target  # storage / ADDRESS context
        self.caller = caller
        self.origin = origin
        self.value = value
        self.data = data
        self.static = static
        self.code_addr = code_addr if code_addr is not None else target
        self.is_create = is_create
        self.code = code  # init code for creates
        self.depth = depth


class Frame:
    def __init__(self, msg):
        self.msg = msg
        self.stack = []
        self.mem = bytearray()
        self.ret = b""  # return data of the last sub call
        self.prank = None  # used by cheat handlers: dict(sender, origin, sticky)


def jumpdests(code):
    out, pc, n = set(), 0, len(code)
    while pc < n:
        op = code[pc]
        if op == 0x5B:
            out.add(pc)
        pc += (op - 0x5F + 1) if 0x60 <= op <= 0x7F else 1
    return out


def mem_expand(f, off, size):
    if size == 0:
        return
    end = off + size
    if end > (1 << 24):
        raise Unsupported("memory beyond 2^24")
    if end > len(f.mem):
        new = ((end + 31) // 32) * 32
        f.mem.extend(b"\x00" * (new - len(f.mem)))


def mread(f, off, size):
    if size == 0:
        return b""
    mem_expand(f, off, size)
    return bytes(f.mem[off : off + size])


def mwrite(f, off, data):
    if not data:
        return
    mem_expand(f, off, len(data))
    f.mem[off : off + len(data)] = data


def padded(data, off, size):
    """data[off:off+size] zero padded (off may be huge)"""
    if size == 0:
        return b""
    chunk = data[off : off + size] if off < len(data) else b""
    return chunk + b"\x00" * (size - len(chunk))


def run_message(world, msg):
    """Executes a message call / creation. Returns (ok, returndata, errkind).
    Value transfer and rollback are handled here."""
    snap = world.snapshot()
    try:
        if msg.is_create:
            return _run_create(world, msg, snap)
        # value transfer (CALL semantics decided by the caller of run_message through msg.transfer)
        if getattr(msg, "transfer", False) and msg.value:
            world.balance[msg.caller] = world.bal(msg.caller) - msg.value
            world.balance[msg.target] = world.bal(msg.target) + msg.value
        code = world.code.get(msg.code_addr, b"")
        if msg.code_addr in world.cheats:
            raise RuntimeError("cheat handlers are dispatched by the CALL instruction")
        ok, data, err = _exec(world, msg, code)
        if not ok:
            world.restore(snap)
        return ok, data, err
    except (Discard, Unsupported):
        raise


def _run_create(world, msg, snap):
    addr = msg.target
    world.code[addr] = b""
    world.storage[addr] = {}
    world.transient[addr] = {}
    if msg.value:
        world.balance[msg.caller] = world.bal(msg.caller) - msg.value
        world.balance[addr] = world.bal(addr) + msg.value
    ok, data, err = _exec(world, msg, msg.code)
    if ok:
        world.code[addr] = bytes(data)
        return True, b"", None
    world.restore(snap)
    return False, data, err


def _exec(world, msg, code):
    f = Frame(msg)
    try:
        data = _loop(world, f, code)
        return True, data, None
    except Halt as h:
        if h.kind == "Revert":
            return False, h.detail, "Revert"
        return False, b"", h.kind


def _loop(world, f, code):
    msg = f.msg
    st = f.stack
    jd = jumpdests(code)
    pc = 0
    n = len(code)
    this = msg.target

    def pop():
        if not st:
            raise Halt("StackUnderflowError")
        return st.pop()

    def need(k):
        if len(st) < k:
            raise Halt("StackUnderflowError")

    def push(v):
        st.append(v & M256)

    def small(v, what):
        if v > (1 << 24):
            raise Unsupported(f"{what} too large: {v}")
        return v

    while True:
        world.steps += 1
        if world.steps > world.max_steps:
            raise Halt("Limit")
        if pc >= n:
            return b""
        op = code[pc]
        pc += 1

        # ---- stop & arithmetic ------------------------------------------------
        if op == 0x00:
            return b""
        elif op == 0x01:
            need(2); a, b = pop(), pop(); push(a + b)
        elif op == 0x02:
            need(2); a, b = pop(), pop(); push(a * b)
        elif op == 0x03:
            need(2); a, b = pop(), pop(); push(a - b)
        elif op == 0x04:
            need(2); a, b = pop(), pop(); push(0 if b == 0 else a // b)
        elif op == 0x05:
            need(2); a, b = pop(), pop()
            if b == 0:
                push(0)
            else:
                sa, sb = sgn(a), sgn(b)
                q = abs(sa) // abs(sb)
                push(-q if (sa < 0) != (sb < 0) else q)
        elif op == 0x06:
            need(2); a, b = pop(), pop(); push(0 if b == 0 else a % b)
        elif op == 0x07:
            need(2); a, b = pop(), pop()
            if b == 0:
                push(0)
            else:
                sa, sb = sgn(a), sgn(b)
                r = abs(sa) % abs(sb)
                push(-r if sa < 0 else r)
        elif op == 0x08:
            need(3); a, b, m = pop(), pop(), pop(); push(0 if m == 0 else (a + b) % m)
        elif op == 0x09:
            need(3); a, b, m = pop(), pop(), pop(); push(0 if m == 0 else (a * b) % m)
        elif op == 0x0A:
            need(2); a, b = pop(), pop(); push(pow(a, b, 1 << 256))
        elif op == 0x0B:
            need(2); b, x = pop(), pop()
            if b < 31:
                bit = 8 * b + 7
                if (x >> bit) & 1:
                    push(x | (M256 - ((1 << bit) - 1)))
                else:
                    push(x & ((1 << (bit + 1)) - 1))
            else:
                push(x)
        # ---- comparison & bitwise -----------------------------------------------
        elif op == 0x10:
            need(2); a, b = pop(), pop(); push(1 if a < b else 0)
        elif op == 0x11:
            need(2); a, b = pop(), pop(); push(1 if a > b else 0)
        elif op == 0x12:
            need(2); a, b = pop(), pop(); push(1 if sgn(a) < sgn(b) else 0)
        elif op == 0x13:
            need(2); a, b = pop(), pop(); push(1 if sgn(a) > sgn(b) else 0)
        elif op == 0x14:
            need(2); a, b = pop(), pop(); push(1 if a == b else 0)
        elif op == 0x15:
            need(1); a = pop(); push(1 if a == 0 else 0)
        elif op == 0x16:
            need(2); a, b = pop(), pop(); push(a & b)
        elif op == 0x17:
            need(2); a, b = pop(), pop(); push(a | b)
        elif op == 0x18:
            need(2); a, b = pop(), pop(); push(a ^ b)
        elif op == 0x19:
            need(1); a = pop(); push(a ^ M256)
        elif op == 0x1A:
            need(2); i, x = pop(), pop(); push(0 if i >= 32 else (x >> (8 * (31 - i))) & 0xFF)
        elif op == 0x1B:
            need(2); s, x = pop(), pop(); push(0 if s >= 256 else x << s)
        elif op == 0x1C:
            need(2); s, x = pop(), pop(); push(0 if s >= 256 else x >> s)
        elif op == 0x1D:
            need(2); s, x = pop(), pop()
            sx = sgn(x)
            push((0 if sx >= 0 else M256) if s >= 256 else sx >> s)
        # ---- keccak ----------------------------------------------------------------
        elif op == 0x20:
            need(2); off, size = pop(), pop()
            small(size, "SHA3 size"); small(off if size else 0, "SHA3 offset")
            push(int.from_bytes(keccak(mread(f, off, size)), "big"))
        # ---- environment -------------------------------------------------------------
        elif op == 0x30:
            push(this)
        elif op == 0x31:
            need(1); a = pop() & M160; push(world.bal(a))
        elif op == 0x32:
            push(msg.origin)
        elif op == 0x33:
            push(msg.caller)
        elif op == 0x34:
            push(msg.value)
        elif op == 0x35:
            need(1); off = pop()
            data = b"" if msg.is_create else msg.data
            push(int.from_bytes(padded(data, off, 32), "big"))
        elif op == 0x36:
            push(0 if msg.is_create else len(msg.data))
        elif op == 0x37:
            need(3); d, o, s = pop(), pop(), pop()
            small(s, "CALLDATACOPY size"); small(d if s else 0, "dest")
            data = b"" if msg.is_create else msg.data
            mwrite(f, d, padded(data, o, s))
        elif op == 0x38:
            push(len(code))
        elif op == 0x39:
            need(3); d, o, s = pop(), pop(), pop()
            small(s, "CODECOPY size"); small(d if s else 0, "dest")
            mwrite(f, d, padded(code, o, s))
        elif op == 0x3B:
            need(1); a = pop() & M160
            if a in world.cheats:
                raise Unsupported("EXTCODESIZE of cheat address")
            push(len(world.code.get(a, b"")))
        elif op == 0x3C:
            need(4); a, d, o, s = pop() & M160, pop(), pop(), pop()
            small(s, "EXTCODECOPY size"); small(d if s else 0, "dest")
            mwrite(f, d, padded(world.code.get(a, b""), o, s))
        elif op == 0x3D:
            push(len(f.ret))
        elif op == 0x3E:
            need(3); d, o, s = pop(), pop(), pop()
            if o + s > len(f.ret):
                raise Halt("OutOfBoundsRead")
            small(d if s else 0, "dest")
            mwrite(f, d, f.ret[o : o + s])
        elif op == 0x3F:
            need(1); a = pop() & M160
            if a in world.cheats:
                raise Unsupported("EXTCODEHASH of cheat address")
            if a in world.code:
                push(int.from_bytes(keccak(world.code[a]), "big"))
            else:
                if world.bal(a):
                    raise Unsupported("EXTCODEHASH of funded codeless account")
                push(0)
        elif op == 0x41:
            push(world.block["coinbase"])
        elif op == 0x42:
            push(world.block["timestamp"])
        elif op == 0x43:
            push(world.block["number"])
        elif op == 0x44:
            push(world.block["difficulty"])
        elif op == 0x45:
            push(world.block["gaslimit"])
        elif op == 0x46:
            push(world.block["chainid"])
        elif op == 0x47:
            push(world.bal(this))
        elif op == 0x48:
            push(world.block["basefee"])
        # ---- stack / memory / storage / flow ---------------------------------------------
        elif op == 0x50:
            need(1); pop()
        elif op == 0x51:
            need(1); off = small(pop(), "MLOAD offset"); push(int.from_bytes(mread(f, off, 32), "big"))
        elif op == 0x52:
            need(2); off, v = small(pop(), "MSTORE offset"), pop(); mwrite(f, off, v.to_bytes(32, "big"))
        elif op == 0x53:
            need(2); off, v = small(pop(), "MSTORE8 offset"), pop(); mwrite(f, off, bytes([v & 0xFF]))
        elif op == 0x54:
            need(1); k = pop(); push(world.storage.get(this, {}).get(k, getattr(world, 'storage_default', 0)))
        elif op == 0x55:
            need(2); k, v = pop(), pop()
            if msg.static:
                raise Halt("WriteInStaticContext")
            world.storage.setdefault(this, {})[k] = v
        elif op == 0x56:
            need(1); t = pop()
            if t not in jd:
                raise Halt("InvalidJumpDestError")
            pc = t
        elif op == 0x57:
            need(2); t, c = pop(), pop()
            if c != 0:
                if t not in jd:
                    raise Halt("InvalidJumpDestError")
                pc = t
        elif op == 0x58:
            push(pc - 1)
        elif op == 0x59:
            push(len(f.mem))
        elif op == 0x5B:
            pass
        elif op == 0x5C:
            need(1); k = pop(); push(world.transient.get(this, {}).get(k, 0))
        elif op == 0x5D:
            need(2); k, v = pop(), pop()
            if msg.static:
                raise Halt("WriteInStaticContext")
            world.transient.setdefault(this, {})[k] = v
        elif op == 0x5E:
            need(3); d, s, size = pop(), pop(), pop()
            small(size, "MCOPY size"); small(d if size else 0, "dst"); small(s if size else 0, "src")
            data = mread(f, s, size)
            mwrite(f, d, data)
        elif op == 0x5F:
            push(0)
        elif 0x60 <= op <= 0x7F:
            k = op - 0x5F
            push(int.from_bytes(padded(code, pc, k), "big"))
            pc += k
        elif 0x80 <= op <= 0x8F:
            k = op - 0x7F
            need(k); push(st[-k])
        elif 0x90 <= op <= 0x9F:
            k = op - 0x8F
            need(k + 1); st[-1], st[-k - 1] = st[-k - 1], st[-1]
        elif 0xA0 <= op <= 0xA4:
            nt = op - 0xA0
            need(2 + nt)
            if msg.static:
                raise Halt("WriteInStaticContext")
            off, size = pop(), pop()
            topics = tuple(pop() for _ in range(nt))
            small(size, "LOG size"); small(off if size else 0, "LOG offset")
            world.logs.append((this, topics, mread(f, off, size)))
        # ---- calls ------------------------------------------------------------------------
        elif op in (0xF1, 0xF2, 0xF4, 0xFA):
            nargs = 7 if op in (0xF1, 0xF2) else 6
            need(nargs)
            pop()  # gas
            to = pop() & M160
            value = pop() if op in (0xF1, 0xF2) else 0
            ao, asz, ro, rsz = pop(), pop(), pop(), pop()
            small(asz, "call args size"); small(ao if asz else 0, "call args offset")
            small(rsz, "call ret size"); small(ro if rsz else 0, "call ret offset")
            args = mread(f, ao, asz)
            mem_expand(f, ro, rsz)
            ok, ret = _do_call(world, f, op, to, value, args)
            f.ret = ret
            k = min(rsz, len(ret))
            if k:
                f.mem[ro : ro + k] = ret[:k]
            push(1 if ok else 0)
        elif op in (0xF0, 0xF5):
            need(4 if op == 0xF5 else 3)
            if msg.static:
                raise Halt("WriteInStaticContext")
            value, off, size = pop(), pop(), pop()
            salt = pop() if op == 0xF5 else None
            small(size, "CREATE size"); small(off if size else 0, "CREATE offset")
            init = mread(f, off, size)
            ok_addr, ret = _do_create(world, f, "CREATE2" if op == 0xF5 else "CREATE", value, salt, init)
            f.ret = ret
            push(ok_addr)
        elif op == 0xF3:
            need(2); off, size = pop(), pop()
            small(size, "RETURN size"); small(off if size else 0, "RETURN offset")
            return mread(f, off, size)
        elif op == 0xFD:
            need(2); off, size = pop(), pop()
            small(size, "REVERT size"); small(off if size else 0, "REVERT offset")
            raise Halt("Revert", mread(f, off, size))
        elif op == 0xFE:
            raise Halt("InvalidOpcode")
        else:
            # GAS, GASPRICE, BLOCKHASH, SELFDESTRUCT, undefined opcodes: outside the alphabets
            raise Unsupported(f"opcode {op:#x}")


def _do_call(world, f, op, to, value, args):
    msg = f.msg
    this = msg.target
    # prank resolution (set by cheat handlers; None otherwise)
    sender, origin = this, msg.origin
    if to in world.cheats:
        # cheatcode / console call: never consumes a prank, never transfers value
        ok, ret = world.cheats[to](world, f, args)
        return ok, ret
    if f.prank is not None and op != 0xF4:
        sender = f.prank["sender"]
        if f.prank.get("origin") is not None:
            origin = f.prank["origin"]
        if not f.prank["sticky"]:
            f.prank = None
    elif f.prank is not None and op == 0xF4:
        raise Unsupported("DELEGATECALL under prank")
    if msg.static and op == 0xF1 and value != 0:
        raise Halt("WriteInStaticContext")
    if op in (0xF1, 0xF2) and value and world.bal(sender) < value:
        world.trace_calls.append((msg.depth + 1, op, sender, to, value, origin, "insufficient"))
        return False, b""
    if 1 <= to <= 10:
        if to == 4:
            if op == 0xF1 and value:
                world.balance[sender] = world.bal(sender) - value
                world.balance[to] = world.bal(to) + value
            return True, args
        raise Unsupported(f"precompile {to}")
    if op == 0xF1:
        sub = Msg(to, sender, origin, value, args, static=msg.static, depth=msg.depth + 1)
        sub.transfer = True
    elif op == 0xFA:
        sub = Msg(to, sender, origin, 0, args, static=True, depth=msg.depth + 1)
    elif op == 0xF2:  # CALLCODE: foreign code on our storage, sender = self (or prank), value not moved
        sub = Msg(this, sender, origin, value, args, static=msg.static, code_addr=to, depth=msg.depth + 1)
    else:  # DELEGATECALL
        sub = Msg(this, msg.caller, origin, msg.value, args, static=msg.static, code_addr=to, depth=msg.depth + 1)
    world.trace_calls.append((sub.depth, op, sub.caller, to, sub.value, origin, "enter"))
    ok, ret, err = run_message(world, sub)
    return ok, ret


def _do_create(world, f, kind, value, salt, init):
    msg = f.msg
    this = msg.target
    sender, origin = this, msg.origin
    if f.prank is not None:
        sender = f.prank["sender"]
        if f.prank.get("origin") is not None:
            origin = f.prank["origin"]
        if not f.prank["sticky"]:
            f.prank = None
    addr = world.new_address(kind, sender, salt, init)
    if value and world.bal(sender) < value:
        return 0, b""
    if world.code.get(addr):
        return 0, b""
    sub = Msg(addr, sender, origin, value, b"", static=False, is_create=True, code=init, depth=msg.depth + 1)
    world.trace_calls.append((sub.depth, kind, sender, addr, value, origin, "enter"))
    ok, ret, err = run_message(world, sub)
    if ok:
        return addr, b""
    return 0, (ret if err == "Revert" else b"")


def transact(world, target, caller, origin, value, data, transfer=False, new_tx=True):
    """top-level transaction. Returns (ok, returndata, errkind)."""
    if new_tx:
        world.transient = {a: {} for a in world.transient}
    msg = Msg(target, caller, origin, value, data)
    msg.transfer = transfer
    return run_message(world, msg)
