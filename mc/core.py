"""Runner shared by every property check: sharding over worker processes,
violation / known-finding reporting, replay files, evidence files.

A property module (props/cNN_*.py) exposes

    ID, LEVEL, TECHNIQUE_NOTE (str), ASSUMPTIONS (list[str])
    shards(tier, seed)        -> list of picklable shard descriptions
    run_shard(shard)          -> dict(counts={}, violations=[], samples=[],
                                      outcomes=[], states=[], capped=bool)
    coverage(tier, merged)    -> dict of extra coverage keys (rule, exhaustive …)
    replay(case)              -> dict(violated=bool, obs=<json-able>)

A violation is dict(key=<canonical key of the failing case>, what=<one line>,
case=<json-able description sufficient for replay()>).
"""

from __future__ import annotations

import argparse
import hashlib
import json
import os
import sys
import time
import traceback
from collections import Counter
from concurrent.futures import ProcessPoolExecutor, as_completed
import multiprocessing as mp
import re

VERIF = os.path.dirname(os.path.dirname(os.path.abspath(__file__)))
REPO = os.environ.get("VERIF_REPO", "/repo")

PROPS = {
    "C01": "props.c01_paths",
    "C02": "props.c02_coverage",
    "C03": "props.c03_pass",
    "C04": "props.c04_cex",
    "C05": "props.c05_verdict",
    "C06": "props.c06_words",
    "C07": "props.c07_bytevec",
    "C08": "props.c08_storage",
    "C09": "props.c09_calls",
    "C10": "props.c10_bounds",
    "C11": "props.c11_query",
    "C12": "props.c12_calldata",
    "C13": "props.c13_asserts",
    "C14": "props.c14_cheats",
    "C15": "props.c15_invariant",
    "C16": "props.c16_cache",
    "C17": "props.c17_procs",
    "C18": "props.c18_config",
    "C19": "props.c19_decode",
    "C20": "props.c20_isolation",
}

MAX_REPORTED = 8  # distinct violation keys written out / printed per run


# --------------------------------------------------------------------------
# environment
# --------------------------------------------------------------------------


def setup_env():
    """Make sure `import halmos` resolves to $VERIF_REPO/src (the working tree)."""
    src = os.path.join(REPO, "src")
    if src not in sys.path:
        sys.path.insert(0, src)
    if VERIF not in sys.path:
        sys.path.insert(0, VERIF)
    os.environ.setdefault("PYTHONHASHSEED", "0")
    # keep halmos quiet and deterministic
    os.environ.setdefault("NO_COLOR", "1")
    os.environ.setdefault("TERM", "dumb")
    os.environ.setdefault("COLUMNS", "200")
    import halmos  # noqa

    real = os.path.realpath(halmos.__file__)
    if not real.startswith(os.path.realpath(src) + os.sep):
        raise SystemExit(f"harness error: halmos imported from {real}, expected {src}")


def _worker_init():
    setup_env()
    # a changed halmos may blow up memory on some input (e.g. a buffer appended to itself): the worker then fails with MemoryError
    # (reported as a crash of that case) instead of taking the machine down.  VERIF_WORKER_AS_GB=0 switches the limit off.
    gb = float(os.environ.get("VERIF_WORKER_AS_GB", "6"))
    if gb > 0:
        import resource

        lim = int(gb * (1 << 30))
        try:
            resource.setrlimit(resource.RLIMIT_AS, (lim, lim))
        except (ValueError, OSError):
            pass
    import logging

    logging.disable(logging.NOTSET)


def _run_shard(modname, shard):
    import importlib

    mod = importlib.import_module(modname)
    t0 = time.time()
    try:
        res = mod.run_shard(shard)
    except Exception:
        return {"harness_error": traceback.format_exc(), "shard": repr(shard)[:300]}
    res["wall"] = time.time() - t0
    return res


# --------------------------------------------------------------------------
# helpers used by property modules
# --------------------------------------------------------------------------


def digest(obj) -> str:
    if not isinstance(obj, (bytes, bytearray)):
        obj = repr(obj).encode()
    return hashlib.blake2b(obj, digest_size=8).hexdigest()


class Acc:
    """Accumulates what a shard reports."""

    def __init__(self, max_samples=3, max_violations=40):
        self.counts = Counter()
        self.violations = []
        self._vkeys = set()
        self.samples = []
        self.outcomes = set()
        self.states = set()
        self.capped = False
        self.max_samples = max_samples
        self.max_violations = max_violations
        self.notes = []

    def count(self, k, n=1):
        self.counts[k] += n

    def sample(self, s):
        if len(self.samples) < self.max_samples:
            self.samples.append(s)

    def outcome(self, o):
        self.outcomes.add(o if isinstance(o, str) else digest(o))

    def state(self, s):
        """returns True if the state is new (in this shard)"""
        d = s if isinstance(s, str) else digest(s)
        if d in self.states:
            return False
        self.states.add(d)
        return True

    def violation(self, key, what, case):
        self.counts["violating_cases"] += 1
        if key in self._vkeys or len(self.violations) >= self.max_violations:
            return
        self._vkeys.add(key)
        self.violations.append({"key": key, "what": what, "case": case})

    def result(self):
        return {
            "counts": dict(self.counts),
            "violations": self.violations,
            "samples": self.samples,
            "outcomes": sorted(self.outcomes),
            "states": sorted(self.states),
            "capped": self.capped,
            "notes": self.notes,
        }


def deadline_from(tier, quick_s, thorough_s):
    cap = os.environ.get("VERIF_TIME_CAP")
    if cap:
        return time.time() + float(cap)
    return time.time() + (quick_s if tier == "quick" else thorough_s)


def jobs():
    return int(os.environ.get("VERIF_JOBS", str(min(16, os.cpu_count() or 1))))


def rotate(items, seed):
    """VERIF_SEED only rotates enumeration order."""
    items = list(items)
    if not items:
        return items
    k = seed % len(items)
    return items[k:] + items[:k]


# --------------------------------------------------------------------------
# findings
# --------------------------------------------------------------------------


def load_findings(pid):
    path = os.path.join(VERIF, "known_findings.json")
    if not os.path.exists(path):
        return []
    with open(path) as f:
        data = json.load(f)
    return [e for e in data.get("findings", []) if e.get("property") == pid]


def match_finding(findings, key):
    for e in findings:
        if e.get("status") != "open":
            continue
        if re.fullmatch(e["key"], key):
            return e
    return None


# --------------------------------------------------------------------------
# main
# --------------------------------------------------------------------------


def write_replay(pid, v):
    os.makedirs(os.path.join(VERIF, "replays"), exist_ok=True)
    body = {"property": pid, "key": v["key"], "what": v["what"], "case": v["case"]}
    h = digest(json.dumps(body, sort_keys=True, default=str))
    path = os.path.join(VERIF, "replays", f"{pid}-{h}.json")
    with open(path, "w") as f:
        json.dump(body, f, indent=1, sort_keys=True, default=str)
    return path


def do_replay(pid, mod, path):
    with open(path) as f:
        body = json.load(f)
    r1 = mod.replay(body["case"])
    r2 = mod.replay(body["case"])
    o1 = json.dumps(r1.get("obs"), sort_keys=True, default=str)
    o2 = json.dumps(r2.get("obs"), sort_keys=True, default=str)
    if o1 != o2 or r1["violated"] != r2["violated"]:
        print("harness error: replay is not deterministic")
        print(o1)
        print(o2)
        return 2
    print(json.dumps(r1, indent=1, default=str)[:6000])
    if r1["violated"]:
        findings = load_findings(pid)
        e = match_finding(findings, r1.get("key", body.get("key", "")))
        if e:
            print(f"KNOWN-FINDING: property={pid} {e['what']}")
            return 0
        print(f"VIOLATION property={pid} replay={path}")
        return 1
    print(f"replay of {path}: property holds on this case")
    return 0


def main(argv):
    """every temporary file of a run (halmos's query dump directories, the harness's generated projects), in this process and in
    the workers (which inherit TMPDIR and do not run exit handlers), lives in one scratch directory under /verif/.work that is
    removed when the run ends"""
    import shutil
    import tempfile

    base = os.path.join(VERIF, ".work")
    os.makedirs(base, exist_ok=True)
    run_tmp = tempfile.mkdtemp(prefix=f"run{os.getpid()}_", dir=base)
    os.environ["TMPDIR"] = run_tmp
    os.environ["VERIF_RUN_TMP"] = run_tmp
    tempfile.tempdir = None
    try:
        return _main(argv)
    finally:
        shutil.rmtree(run_tmp, ignore_errors=True)


def _main(argv):
    ap = argparse.ArgumentParser(prog="check")
    ap.add_argument("prop")
    ap.add_argument("--tier", default=os.environ.get("VERIF_TIER", "quick"))
    ap.add_argument("--replay")
    ap.add_argument("--no-evidence", action="store_true")
    args = ap.parse_args(argv)
    pid = args.prop.upper()
    if pid not in PROPS:
        print(f"unknown property {pid}")
        return 2
    tier = args.tier if args.tier in ("quick", "thorough") else "quick"
    seed = int(os.environ.get("VERIF_SEED", "0") or 0)

    setup_env()
    import importlib

    try:
        mod = importlib.import_module(PROPS[pid])
    except ModuleNotFoundError as e:
        print(f"harness error: {e}")
        return 2

    if args.replay:
        return do_replay(pid, mod, args.replay)

    t0 = time.time()
    shards = mod.shards(tier, seed)
    nj = max(1, min(jobs(), len(shards)))
    results = []
    harness_errors = []
    if nj == 1:
        _worker_init()
        for s in shards:
            results.append(_run_shard(PROPS[pid], s))
    else:
        ctx = mp.get_context("spawn")
        pending = list(shards)
        for attempt in range(3):
            # a worker killed by a native crash (z3 abort, OOM) breaks the whole pool: shards whose result was lost are run
            # again in a fresh pool (each shard is deterministic and self-contained), at most twice
            lost = []
            with ProcessPoolExecutor(min(nj, len(pending)), mp_context=ctx, initializer=_worker_init) as ex:
                futs = {ex.submit(_run_shard, PROPS[pid], s): s for s in pending}
                for f in as_completed(futs):
                    try:
                        results.append(f.result())
                    except Exception:
                        lost.append((futs[f], traceback.format_exc()))
            if not lost:
                break
            if attempt == 2:
                for s, tb in lost:
                    results.append({"harness_error": tb, "shard": repr(s)[:300]})
                break
            print(f"note: {len(lost)} shard(s) lost to a crashed worker process, running them again (attempt {attempt + 2})")
            pending = [s for s, _ in lost]

    counts = Counter()
    violations = []
    samples = []
    outcomes = set()
    states = set()
    capped = False
    notes = []
    for r in results:
        if "harness_error" in r:
            harness_errors.append(r)
            continue
        counts.update(r.get("counts", {}))
        violations.extend(r.get("violations", []))
        for s in r.get("samples", []):
            if len(samples) < 6:
                samples.append(s)
        outcomes.update(r.get("outcomes", []))
        states.update(r.get("states", []))
        capped = capped or r.get("capped", False)
        notes.extend(r.get("notes", []))

    if harness_errors:
        for r in harness_errors[:3]:
            print("harness error in shard", r.get("shard", "?"))
            print(r["harness_error"])
        return 2

    merged = {
        "counts": counts,
        "violations": violations,
        "samples": samples,
        "outcomes": outcomes,
        "states": states,
        "capped": capped,
        "notes": notes,
        "shards": len(shards),
    }

    # ---- classify violations -------------------------------------------------
    findings = load_findings(pid)
    known_hit = {}
    fresh = {}
    for v in violations:
        e = match_finding(findings, v["key"])
        if e is not None:
            known_hit.setdefault(e["key"], (e, v))
        else:
            fresh.setdefault(v["key"], v)

    for e, v in known_hit.values():
        print(f"KNOWN-FINDING: property={pid} {e['what']}  [e.g. {v['key']}]")
    if os.environ.get("VERIF_DUMP_VIOLATIONS"):
        with open(os.environ["VERIF_DUMP_VIOLATIONS"], "w") as f:
            for k, v in sorted(fresh.items()):
                f.write(f"{k}\t{v['what']}\n")
    rc = 0
    for i, (k, v) in enumerate(sorted(fresh.items(), key=lambda kv: len(json.dumps(kv[1]["case"], default=str)))):
        if i >= MAX_REPORTED:
            print(f"... {len(fresh) - MAX_REPORTED} more distinct violation keys not written out")
            break
        path = write_replay(pid, v)
        print(f"  {v['what']}")
        print(f"VIOLATION property={pid} replay={path}")
        rc = 1

    # ---- evidence --------------------------------------------------------------
    wall = time.time() - t0
    cov = {}
    try:
        cov = mod.coverage(tier, merged)
    except Exception:
        print("harness error in coverage():")
        traceback.print_exc()
        return 2
    cov.setdefault("samples", samples)
    cov.setdefault("distinct_outcomes", len(outcomes))
    cov.setdefault("caps_hit", bool(capped))
    cov.setdefault("counts", dict(counts))
    cov.setdefault("shards", len(shards))
    cov.setdefault("known_findings_hit", sorted(known_hit))
    if notes:
        cov.setdefault("notes", notes[:20])
    ev = {
        "property_id": pid,
        "tier": tier,
        "seed": seed,
        "level": mod.LEVEL,
        "coverage": cov,
        "assumptions": list(getattr(mod, "ASSUMPTIONS", [])),
        "wall_s": round(wall, 2),
        "violations": len(fresh),
    }
    if not args.no_evidence:
        os.makedirs(os.path.join(VERIF, "evidence"), exist_ok=True)
        with open(os.path.join(VERIF, "evidence", f"{pid}.json"), "w") as f:
            json.dump(ev, f, indent=1, sort_keys=True, default=str)

    summary = {k: v for k, v in cov.items() if isinstance(v, (int, float, bool))}
    print(f"{pid} {tier}: {summary} wall={wall:.1f}s violations={len(fresh)} known={len(known_hit)}")
    return rc
