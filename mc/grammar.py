"""Program grammar for the C01/C02 engines: programs are sequences of
statements; every computed value is written to an output region of memory
that the epilogue returns together with probes of every storage slot the
alphabet can touch, so that observation is black-box (return data + logs).

A statement is a tuple; `build(stmts)` assembles a whole program.
"""

from __future__ import annotations

from mc import asm
from mc.asm import expr_code, expr_str

OUT_BASE = 0x100  # output region starts here; memory below is scratch the statements play with

X, Y, V = ("x",), ("y",), ("v",)
K0, K1, K2, K32, KMAX, KTOP = ("k", 0), ("k", 1), ("k", 2), ("k", 32), ("k", 2**256 - 1), ("k", 2**255)


class Ctx:
    def __init__(self):
        self.nout = 0
        self.nlabel = 0
        self.labels = []
        self.cur = None

    def out_slot(self):
        s = OUT_BASE + 32 * self.nout
        self.nout += 1
        self.labels.append(self.cur)
        return s

    def label(self):
        self.nlabel += 1
        return f"L{self.nlabel}"


def stmt_code(s, ctx):
    k = s[0]
    if k not in ("if", "ifelse"):
        ctx.cur = stmt_str(s)
    if k == "out":  # record the value of an expression
        return expr_code(s[1]) + [("push", ctx.out_slot()), "MSTORE"]
    if k == "out_op":  # record the value of a 0-ary opcode (MSIZE, CALLDATASIZE, CODESIZE, RETURNDATASIZE, ...)
        return [s[1], ("push", ctx.out_slot()), "MSTORE"]
    if k == "mstore":
        return expr_code(s[2]) + [("push", s[1]), "MSTORE"]
    if k == "mstore8":
        return expr_code(s[2]) + [("push", s[1]), "MSTORE8"]
    if k == "sstore":
        return expr_code(s[2]) + expr_code(s[1]) + ["SSTORE"]
    if k == "tstore":
        return expr_code(s[2]) + expr_code(s[1]) + ["TSTORE"]
    if k == "sha3":  # out(keccak(mem[a:a+n]))
        return [("push", s[2]), ("push", s[1]), "SHA3", ("push", ctx.out_slot()), "MSTORE"]
    if k == "log":  # ("log", [topic exprs], a, n)
        items = []
        for t in reversed(s[1]):
            items += expr_code(t)
        return items + [("push", s[3]), ("push", s[2]), f"LOG{len(s[1])}"]
    if k == "mcopy":
        return [("push", s[3]), ("push", s[2]), ("push", s[1]), "MCOPY"]
    if k == "calldatacopy":
        return [("push", s[3]), ("push", s[2]), ("push", s[1]), "CALLDATACOPY"]
    if k == "codecopy":
        return [("push", s[3]), ("push", s[2]), ("push", s[1]), "CODECOPY"]
    if k == "returndatacopy":
        return [("push", s[3]), ("push", s[2]), ("push", s[1]), "RETURNDATACOPY"]
    if k == "extcodecopy":  # ("extcodecopy", addr, d, o, n)
        return [("push", s[4]), ("push", s[3]), ("push", s[2]), ("push", s[1]), "EXTCODECOPY"]
    if k == "callx":  # ("callx", "CALL"|"STATICCALL", addr expr): call with empty calldata, record success flag and the first returned word
        val = ["PUSH0"] if s[1] == "CALL" else []
        # optional 4th element "hi": the output area lies beyond the current end of memory (the call expands memory to cover it,
        # whatever the callee returns; visible in MSIZE and in the final memory dump)
        if len(s) > 3:  # only the success flag is recorded: reading the output area would expand memory by itself
            return [("push", 32), ("push", 0x600), "PUSH0", "PUSH0"] + val + expr_code(s[2]) + [("push", 0xFFFF), s[1], ("push", ctx.out_slot()), "MSTORE"]
        return ([("push", 32), "PUSH0", "PUSH0", "PUSH0"] + val + expr_code(s[2]) + [("push", 0xFFFF), s[1]]
                + [("push", ctx.out_slot()), "MSTORE", "PUSH0", "MLOAD", ("push", ctx.out_slot()), "MSTORE"])
    if k == "loop":  # ("loop", style, bound expr): i = 0; while (i < e) i++; out(i)   -- "while": the exit is the taken side of the JUMPI; "dowhile": the back edge is
        top, ext = ctx.label(), ctx.label()
        if s[1] == "while":
            body = ["PUSH0", ("label", top)] + expr_code(s[2]) + ["DUP2", "LT", "ISZERO", ("ref", ext), "JUMPI", ("push", 1), "ADD", ("ref", top), "JUMP", ("label", ext)]
        else:
            body = ["PUSH0", ("label", top), ("push", 1), "ADD"] + expr_code(s[2]) + ["DUP2", "LT", ("ref", top), "JUMPI"]
        return body + [("push", ctx.out_slot()), "MSTORE"]
    if k == "create_probe":  # code size of the account e before and after a CREATE (of a 1-byte contract) in this frame
        probe = expr_code(s[1]) + ["EXTCODESIZE", ("push", ctx.out_slot()), "MSTORE"]
        create = [("pushn", 4, 0x60015FF3), ("push", 224), "SHL", ("push", 0x1E00), "MSTORE", ("push", 4), ("push", 0x1E00), "PUSH0", "CREATE", "POP"]
        return probe + create + expr_code(s[1]) + ["EXTCODESIZE", ("push", ctx.out_slot()), "MSTORE"]
    if k == "if":  # ("if", cond, [stmts])
        lab = ctx.label()
        body = []
        for t in s[2]:
            body += stmt_code(t, ctx)
        return expr_code(s[1]) + ["ISZERO", ("ref", lab), "JUMPI"] + body + [("label", lab)]
    if k == "ifelse":
        l1, l2 = ctx.label(), ctx.label()
        a, b = [], []
        for t in s[2]:
            a += stmt_code(t, ctx)
        for t in s[3]:
            b += stmt_code(t, ctx)
        return expr_code(s[1]) + [("ref", l1), "JUMPI"] + b + [("ref", l2), "JUMP", ("label", l1)] + a + [("label", l2)]
    if k == "revert":
        return [("push", s[2]), ("push", s[1]), "REVERT"]
    if k == "return":
        return [("push", s[2]), ("push", s[1]), "RETURN"]
    if k == "stop":
        return ["STOP"]
    if k == "invalid":
        return ["INVALID"]
    if k == "badjump":
        return [("push", s[1]), "JUMP"]
    if k == "pop_empty":
        return ["POP"]
    if k == "raw":
        return list(s[1])
    raise ValueError(s)


def stmt_str(s):
    k = s[0]
    if k == "out":
        return f"out({expr_str(s[1])})"
    if k == "out_op":
        return f"out({s[1]})"
    if k in ("mstore", "mstore8"):
        return f"{k}({s[1]},{expr_str(s[2])})"
    if k in ("sstore", "tstore"):
        return f"{k}({expr_str(s[1])},{expr_str(s[2])})"
    if k == "sha3":
        return f"out(sha3({s[1]},{s[2]}))"
    if k == "log":
        return f"log{len(s[1])}({','.join(expr_str(t) for t in s[1])};{s[2]},{s[3]})"
    if k in ("mcopy", "calldatacopy", "codecopy", "returndatacopy"):
        return f"{k}({s[1]},{s[2]},{s[3]})"
    if k == "extcodecopy":
        return f"extcodecopy({s[1]:#x},{s[2]},{s[3]},{s[4]})"
    if k == "callx":
        return f"callx({s[1]},{expr_str(s[2])}{',hi' if len(s) > 3 else ''})"
    if k == "create_probe":
        return f"create_probe({expr_str(s[1])})"
    if k == "loop":
        return f"loop_{s[1]}({expr_str(s[2])})"
    if k == "if":
        return f"if({expr_str(s[1])}){{{';'.join(stmt_str(t) for t in s[2])}}}"
    if k == "ifelse":
        return f"if({expr_str(s[1])}){{{';'.join(stmt_str(t) for t in s[2])}}}else{{{';'.join(stmt_str(t) for t in s[3])}}}"
    if k in ("revert", "return"):
        return f"{k}({s[1]},{s[2]})"
    if k == "raw":
        return "raw(" + " ".join(map(str, s[1])) + ")"
    return k + (str(list(s[1:])) if len(s) > 1 else "")


def build(stmts, probes_s=(0, 1), probes_t=(0,), extra_epilogue=(), with_labels=False):
    """whole program: statements, then epilogue probing storage/transient slots and returning
    memory [0, end of output region)"""
    ctx = Ctx()
    items = []
    for s in stmts:
        items += stmt_code(s, ctx)
    nbody = ctx.nout
    for k in probes_s:
        items += stmt_code(("out", ("sload", k if isinstance(k, tuple) else ("k", k))), ctx)
    for k in probes_t:
        items += stmt_code(("out", ("tload", k if isinstance(k, tuple) else ("k", k))), ctx)
    for s in extra_epilogue:
        items += stmt_code(s, ctx)
    end = OUT_BASE + 32 * ctx.nout
    items += [("push", end), "PUSH0", "RETURN"]
    if with_labels:
        return asm.assemble(items), ["probe:" + l if i >= nbody else l for i, l in enumerate(ctx.labels)]
    return asm.assemble(items)


def prog_str(stmts):
    return "; ".join(stmt_str(s) for s in stmts)


# ---------------------------------------------------------------------------
# alphabets
# ---------------------------------------------------------------------------

EXPRS_FULL = [
    X, Y, V, ("caller",), K1, KMAX,
    ("ADD", X, Y), ("SUB", X, K1), ("LT", X, Y), ("ISZERO", X), ("DIV", X, Y), ("MOD", X, Y), ("MUL", X, Y),
    ("AND", X, ("k", 0xFF)), ("SHL", K1, X), ("keccak1", X), ("EQ", X, Y), ("NOT", ("LT", X, Y)),
]
EXPRS_SMALL = [X, Y, K1, ("ADD", X, Y), ("LT", X, Y), ("DIV", X, Y)]
CONDS = [X, ("LT", X, Y), ("ISZERO", Y), ("EQ", X, K1)]
# comparisons of a hash with itself plus a constant: halmos assumes `h + k` does not wrap for k < 2^64 (documented hash-range assumption) and
# prunes that side without the solver; every other offset (negative, >= 2^64) must be decided on its merits
_H = ("keccak1", X)
HASH_CONDS = [
    ("LT", ("SUB", _H, ("k", 5)), _H),                # h - 5 < h   : true for every real hash
    ("LT", ("ADD", ("k", 5), _H), _H),                # h + 5 < h   : the overflow pattern itself, false
    ("GT", _H, ("ADD", ("k", 2**256 - 1), _H)),       # h > h - 1
    ("GT", _H, ("ADD", ("k", 2**255), _H)),           # h > h + 2^255 : true iff h >= 2^255
    ("LT", ("ADD", ("k", 2**64), _H), ("keccak1", Y)),  # different hash terms
    ("GT", _H, ("ADD", ("ADD", ("k", 5), _H), Y)),      # h > 5 + h + y : a third addend makes the wrap-around possible
    ("LT", ("ADD", Y, ("ADD", _H, ("k", 5))), _H),
]


def statements(kind):
    """statement alphabet; kind in {"full", "reduced"}"""
    full = kind == "full"
    E = EXPRS_FULL if full else EXPRS_SMALL
    S = []
    for e in E:
        S.append(("out", e))
    for a in (0, 1, 32) if full else (0, 1):
        for e in ([X, KMAX, ("LT", X, Y), ("ADD", X, Y)] if full else [X, KMAX]):
            S.append(("mstore", a, e))
    for a in (0, 31, 33) if full else (31,):
        for e in ([X, K1] if full else [X]):
            S.append(("mstore8", a, e))
    for a in (0, 1, 32, 64) if full else (0, 1):
        S.append(("out", ("mload", ("k", a))))
    # storage
    for k in (K0, K1) if full else (K0,):
        for e in ([X, Y, K1] if full else [X]):
            S.append(("sstore", k, e))
    S.append(("sstore", ("keccak1", X), Y))
    S.append(("sstore", ("keccak2", X, K1), Y))
    S.append(("out", ("sload", K0)))
    S.append(("out", ("sload", ("keccak1", Y))))
    S.append(("out", ("sload", ("keccak2", Y, K1))))
    S.append(("tstore", K0, X))
    S.append(("out", ("tload", K0)))
    if full:
        S.append(("sstore", ("ADD", ("keccak1", K1), X), Y))
        S.append(("out", ("sload", ("ADD", ("keccak1", K1), Y))))
        S.append(("tstore", ("keccak1", X), Y))
        S.append(("out", ("tload", ("keccak1", Y))))
    # hashing, logs, copies
    for (a, n) in ((0, 32), (0, 64), (1, 33), (0, 0)) if full else ((0, 32), (1, 33)):
        S.append(("sha3", a, n))
    S.append(("log", [], 0, 32))
    S.append(("log", [X], 1, 33))
    if full:
        S.append(("log", [X, Y], 0, 0))
    for (d, s_, n) in ((0, 32, 32), (1, 0, 33), (32, 0, 64), (0, 1, 32), (64, 64, 32), (0, 0, 48)) if full else ((1, 0, 33), (32, 0, 64)):
        S.append(("mcopy", d, s_, n))
    for (d, o, n) in ((0, 0, 64), (1, 31, 33), (0, 60, 32)) if full else ((1, 31, 33), (0, 60, 32)):
        S.append(("calldatacopy", d, o, n))
    S.append(("codecopy", 0, 0, 32))
    if full:
        # the return-data buffer is empty here (or holds what an earlier callx left): reading past its end halts, also with size 0 (EIP-211)
        # (after a callx to the account that returns one word, non-zero source offsets read the middle of the buffer)
        for (d, o, n) in ((0, 0, 0), (0, 1, 0), (0, 0, 32), (1, 2**200, 0), (0, 4, 8), (3, 16, 16), (0, 31, 1), (0, 16, 17)):
            S.append(("returndatacopy", d, o, n))
        S.append(("codecopy", 1, 2**20, 33))
    for op in ("MSIZE", "CALLDATASIZE", "CODESIZE", "RETURNDATASIZE", "SELFBALANCE") if full else ("MSIZE",):
        S.append(("out_op", op))
    S.append(("out", ("balance", ("caller",))))
    # other accounts' code: this contract, an existing account without code, a non-existent account
    for a in (0xAAAA, 0xB1, 0xDEAD) if full else (0xAAAA, 0xDEAD):
        S.append(("extcodecopy", a, 0, 0, 32))
        S.append(("extcodecopy", a, 1, 16, 33))
        if full:
            S.append(("out", ("EXTCODESIZE", ("k", a))))
            S.append(("out", ("EXTCODEHASH", ("k", a))))
    # symbolic account addresses (alias resolution)
    if full:
        S.append(("out", ("EXTCODESIZE", X)))
        S.append(("out", ("EXTCODEHASH", X)))
        S.append(("out", ("balance", X)))
        S.append(("callx", "CALL", X))
        S.append(("callx", "STATICCALL", X))
        S.append(("callx", "CALL", X, "hi"))
        S.append(("callx", "STATICCALL", ("k", 0xE0AE), "hi"))
        S.append(("create_probe", X))
        # loops on a symbolic bound (cut by --loop: the paths that are reported must still be exact)
        S.append(("loop", "while", ("AND", X, ("k", 7))))
        S.append(("loop", "dowhile", ("AND", X, ("k", 7))))
        S.append(("loop", "while", ("AND", Y, ("k", 3))))
    # branches
    bodies = [[("sstore", K0, K1)], [("mstore", 0, KMAX)], [("revert", 0, 32)], [("invalid",)], [("out", K1)]]
    if full:
        bodies = bodies + [[("tstore", K0, K1)]]
    for c in CONDS if full else CONDS[:2]:
        for b in bodies if full else bodies[:3]:
            S.append(("if", c, b))
    S.append(("ifelse", ("LT", X, Y), [("mstore", 0, X)], [("mstore", 0, Y)]))
    if full:
        for c in HASH_CONDS:
            S.append(("ifelse", c, [("out", K1)], [("out", K2)]))
    return S


TERMINATORS = [("revert", 0, 32), ("revert", 0, 0), ("return", 1, 33), ("stop",), ("invalid",), ("badjump", 3), ("pop_empty",),
               ("return", 2**200, 0), ("revert", 2**200, 0)]  # size 0: the offset is irrelevant (no memory is touched)
