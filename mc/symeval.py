"""Ground evaluator for the z3 terms halmos builds.

A set of terms is compiled once into a straight-line program (one slot per
distinct sub-term, so shared DAG nodes are evaluated once) and then evaluated
for many environments.  Values: Python int for bit-vectors (always reduced
mod 2^w), bool for Bool, `Arr` for arrays.

Uninterpreted symbols:
  * 0-ary: looked up in the environment (name -> value); missing -> `Unevaluable`
    unless the environment supplies `__default__(name, sort_descr)`.
  * n-ary: the *standard interpretation* named by the property statements
    (f_sha3_N = keccak, f_evm_bv{udiv,urem,sdiv,srem,mul}_W / f_evm_exp = exact
    EVM operation, x/0 = x%0 = 0).  Anything else -> `Unevaluable`, unless an
    `extra_funcs` mapping name -> python callable is given.

SMT-LIB semantics is followed for the interpreted operators (bvudiv x 0 =
all-ones, bvurem x 0 = x, ...), because that is what the external solvers
implement for the same terms.
"""

from __future__ import annotations

import z3
from eth_hash.auto import keccak

K = z3  # shorthand


class Unevaluable(Exception):
    pass


class Arr:
    """immutable array value: finite map + default"""

    __slots__ = ("d", "default", "_norm")

    def __init__(self, d=None, default=0):
        self.d = d if d is not None else {}
        self.default = default
        self._norm = None

    def select(self, k):
        return self.d.get(k, self.default)

    def store(self, k, v):
        nd = dict(self.d)
        nd[k] = v
        return Arr(nd, self.default)

    def norm(self):
        if self._norm is None:
            dv = self.default
            if isinstance(dv, Arr):
                dvn = dv.norm()
                items = tuple(sorted((k, v.norm()) for k, v in self.d.items() if v.norm() != dvn))
                self._norm = (items, dvn)
            else:
                items = tuple(sorted((k, v) for k, v in self.d.items() if v != dv))
                self._norm = (items, dv)
        return self._norm

    def __eq__(self, o):
        return isinstance(o, Arr) and self.norm() == o.norm()

    def __ne__(self, o):
        return not self.__eq__(o)

    def __hash__(self):
        return hash(self.norm())

    def __repr__(self):
        return f"Arr({self.norm()})"


def to_signed(x, w):
    return x - (1 << w) if x >> (w - 1) else x


# ---------------------------------------------------------------------------
# EVM-exact meaning of the abstraction functions
# ---------------------------------------------------------------------------


def evm_udiv(x, y, w):
    return 0 if y == 0 else x // y


def evm_urem(x, y, w):
    return 0 if y == 0 else x % y


def evm_sdiv(x, y, w):
    if y == 0:
        return 0
    sx, sy = to_signed(x, w), to_signed(y, w)
    q = abs(sx) // abs(sy)
    if (sx < 0) != (sy < 0):
        q = -q
    return q % (1 << w)


def evm_srem(x, y, w):
    if y == 0:
        return 0
    sx, sy = to_signed(x, w), to_signed(y, w)
    r = abs(sx) % abs(sy)
    if sx < 0:
        r = -r
    return r % (1 << w)


def std_func(name):
    """standard interpretation of halmos's uninterpreted function `name`:
    returns f(args: list[int], arg_widths: list[int], range_width) -> int, or None"""
    if name.startswith("f_sha3_") and not name.startswith("f_sha3_inv"):
        rest = name[len("f_sha3_"):]
        if rest.isdigit():
            nbits = int(rest)

            def f(args, ws, rw, nbits=nbits):
                if nbits == 0:
                    return int.from_bytes(keccak(b""), "big")
                return int.from_bytes(keccak(args[0].to_bytes(nbits // 8, "big")), "big")

            return f
    if name == "f_vmaddr":  # address of a private key (vm.addr); keys outside (0, n) are outside the alphabet
        from mc import secp

        return lambda args, ws, rw: secp.address_of(args[0]) if secp.valid_key(args[0]) else 0
    if name.startswith("f_evm_"):
        rest = name[len("f_evm_"):]
        op, _, w = rest.rpartition("_")
        table = {
            "bvudiv": evm_udiv,
            "bvurem": evm_urem,
            "bvsdiv": evm_sdiv,
            "bvsrem": evm_srem,
            "bvmul": lambda x, y, w: (x * y) % (1 << w),
        }
        if op in table and w.isdigit():
            fn = table[op]
            return lambda args, ws, rw, fn=fn: fn(args[0], args[1], rw)
        if op == "exp" and w.isdigit():
            return lambda args, ws, rw: pow(args[0], args[1], 1 << rw)
    return None


# ---------------------------------------------------------------------------
# compiler
# ---------------------------------------------------------------------------


def _sort_descr(s):
    k = s.kind()
    if k == z3.Z3_BV_SORT:
        return ("bv", s.size())
    if k == z3.Z3_BOOL_SORT:
        return ("bool",)
    if k == z3.Z3_ARRAY_SORT:
        return ("array", _sort_descr(s.domain()), _sort_descr(s.range()))
    return ("other", str(s))


def default_value(descr):
    if descr[0] == "bv":
        return 0
    if descr[0] == "bool":
        return False
    if descr[0] == "array":
        return Arr({}, default_value(descr[2]))
    raise Unevaluable(f"no default for sort {descr}")


class Program:
    """Straight-line evaluation program for a list of root terms."""

    def __init__(self, roots, extra_funcs=None, defs=None):
        self.defs = defs or {}  # name of a 0-ary symbol -> defining term (symbol is an alias of it)
        self.code = []  # list of (opfn, argslots tuple, aux)
        self.slot_of = {}  # ast id -> slot
        self._keep = []  # keep ASTs alive so ids are not reused
        self.vars = {}  # name -> sort descr
        self.funcs = {}  # name -> count of applications
        self.extra_funcs = extra_funcs or {}
        self.roots = [self._compile(t) for t in roots]

    # -- compile ----------------------------------------------------------
    def _emit(self, fn, args=(), aux=None):
        self.code.append((fn, tuple(args), aux))
        return len(self.code) - 1

    def _compile(self, t):
        # iterative post-order to avoid recursion limits on deep store chains
        stack = [(t, False)]
        while stack:
            node, expanded = stack.pop()
            nid = node.get_id()
            if nid in self.slot_of:
                continue
            if not expanded:
                stack.append((node, True))
                dname = self._def_name(node)
                if dname is not None:
                    c = self.defs[dname]
                    if c.get_id() not in self.slot_of:
                        stack.append((c, False))
                elif z3.is_app(node):
                    for i in range(node.num_args()):
                        c = node.arg(i)
                        if c.get_id() not in self.slot_of:
                            stack.append((c, False))
                elif z3.is_quantifier(node):
                    raise Unevaluable("quantifier")
                continue
            self._keep.append(node)
            dname = self._def_name(node)
            if dname is not None:
                self.slot_of[nid] = self.slot_of[self.defs[dname].get_id()]
            else:
                self.slot_of[nid] = self._compile_node(node)
        return self.slot_of[t.get_id()]

    def _def_name(self, node):
        if not self.defs or not z3.is_app(node) or node.num_args() != 0:
            return None
        if node.decl().kind() != z3.Z3_OP_UNINTERPRETED:
            return None
        name = node.decl().name()
        return name if name in self.defs else None

    def _compile_node(self, t):
        if not z3.is_app(t):
            raise Unevaluable(f"not an application: {t}")
        d = t.decl()
        k = d.kind()
        args = [self.slot_of[t.arg(i).get_id()] for i in range(t.num_args())]
        sort = t.sort()
        sk = sort.kind()
        w = sort.size() if sk == z3.Z3_BV_SORT else None
        mask = (1 << w) - 1 if w is not None else None
        Z = z3

        if k == Z.Z3_OP_BNUM:
            v = t.as_long()
            return self._emit(lambda a, x, v=v: v)
        if k == Z.Z3_OP_TRUE:
            return self._emit(lambda a, x: True)
        if k == Z.Z3_OP_FALSE:
            return self._emit(lambda a, x: False)
        if k == Z.Z3_OP_UNINTERPRETED:
            name = d.name()
            if not args:
                descr = _sort_descr(sort)
                self.vars[name] = descr
                return self._emit(None, (), ("var", name, descr))
            self.funcs[name] = self.funcs.get(name, 0) + 1
            fn = self.extra_funcs.get(name) or std_func(name)
            ws = [t.arg(i).sort().size() if t.arg(i).sort().kind() == Z.Z3_BV_SORT else None for i in range(len(args))]
            rw = w
            if fn is None:
                return self._emit(None, args, ("ufunc", name, ws, rw))
            return self._emit(lambda a, x, fn=fn, ws=ws, rw=rw: fn(list(a), ws, rw), args)

        # boolean
        if k == Z.Z3_OP_EQ:
            return self._emit(lambda a, x: a[0] == a[1], args)
        if k == Z.Z3_OP_DISTINCT:
            return self._emit(lambda a, x: len(set(a)) == len(a), args)
        if k == Z.Z3_OP_ITE:
            return self._emit(lambda a, x: a[1] if a[0] else a[2], args)
        if k == Z.Z3_OP_AND:
            return self._emit(lambda a, x: all(a), args)
        if k == Z.Z3_OP_OR:
            return self._emit(lambda a, x: any(a), args)
        if k == Z.Z3_OP_NOT:
            return self._emit(lambda a, x: not a[0], args)
        if k == Z.Z3_OP_XOR:
            return self._emit(lambda a, x: bool(a[0]) != bool(a[1]), args)
        if k == Z.Z3_OP_IMPLIES:
            return self._emit(lambda a, x: (not a[0]) or a[1], args)
        if k == Z.Z3_OP_IFF:
            return self._emit(lambda a, x: bool(a[0]) == bool(a[1]), args)

        # bit-vector arithmetic
        if k == Z.Z3_OP_BNEG:
            return self._emit(lambda a, x, m=mask: (-a[0]) & m, args)
        if k == Z.Z3_OP_BADD:
            return self._emit(lambda a, x, m=mask: sum(a) & m, args)
        if k == Z.Z3_OP_BSUB:
            def sub(a, x, m=mask):
                r = a[0]
                for y in a[1:]:
                    r -= y
                return r & m
            return self._emit(sub, args)
        if k == Z.Z3_OP_BMUL:
            def mul(a, x, m=mask):
                r = 1
                for y in a:
                    r = (r * y) & m
                return r
            return self._emit(mul, args)
        if k in (Z.Z3_OP_BUDIV, Z.Z3_OP_BUDIV_I):
            return self._emit(lambda a, x, m=mask: m if a[1] == 0 else a[0] // a[1], args)
        if k in (Z.Z3_OP_BUREM, Z.Z3_OP_BUREM_I):
            return self._emit(lambda a, x: a[0] if a[1] == 0 else a[0] % a[1], args)
        if k in (Z.Z3_OP_BSDIV, Z.Z3_OP_BSDIV_I):
            def sdiv(a, x, w=w, m=mask):
                sx, sy = to_signed(a[0], w), to_signed(a[1], w)
                if sy == 0:
                    return m if sx >= 0 else 1
                q = abs(sx) // abs(sy)
                if (sx < 0) != (sy < 0):
                    q = -q
                return q & m
            return self._emit(sdiv, args)
        if k in (Z.Z3_OP_BSREM, Z.Z3_OP_BSREM_I):
            def srem(a, x, w=w, m=mask):
                sx, sy = to_signed(a[0], w), to_signed(a[1], w)
                if sy == 0:
                    return a[0]
                r = abs(sx) % abs(sy)
                if sx < 0:
                    r = -r
                return r & m
            return self._emit(srem, args)
        if k in (Z.Z3_OP_BSMOD, Z.Z3_OP_BSMOD_I):
            def smod(a, x, w=w, m=mask):
                sx, sy = to_signed(a[0], w), to_signed(a[1], w)
                if sy == 0:
                    return a[0]
                return (sx % sy) & m  # python % takes the sign of the divisor
            return self._emit(smod, args)

        # comparisons
        if k == Z.Z3_OP_ULEQ:
            return self._emit(lambda a, x: a[0] <= a[1], args)
        if k == Z.Z3_OP_ULT:
            return self._emit(lambda a, x: a[0] < a[1], args)
        if k == Z.Z3_OP_UGEQ:
            return self._emit(lambda a, x: a[0] >= a[1], args)
        if k == Z.Z3_OP_UGT:
            return self._emit(lambda a, x: a[0] > a[1], args)
        if k in (Z.Z3_OP_SLEQ, Z.Z3_OP_SLT, Z.Z3_OP_SGEQ, Z.Z3_OP_SGT):
            aw = t.arg(0).sort().size()
            import operator
            op = {Z.Z3_OP_SLEQ: operator.le, Z.Z3_OP_SLT: operator.lt, Z.Z3_OP_SGEQ: operator.ge, Z.Z3_OP_SGT: operator.gt}[k]
            return self._emit(lambda a, x, aw=aw, op=op: op(to_signed(a[0], aw), to_signed(a[1], aw)), args)

        # bitwise
        if k == Z.Z3_OP_BAND:
            def band(a, x):
                r = a[0]
                for y in a[1:]:
                    r &= y
                return r
            return self._emit(band, args)
        if k == Z.Z3_OP_BOR:
            def bor(a, x):
                r = a[0]
                for y in a[1:]:
                    r |= y
                return r
            return self._emit(bor, args)
        if k == Z.Z3_OP_BXOR:
            def bxor(a, x):
                r = a[0]
                for y in a[1:]:
                    r ^= y
                return r
            return self._emit(bxor, args)
        if k == Z.Z3_OP_BNOT:
            return self._emit(lambda a, x, m=mask: a[0] ^ m, args)
        if k == Z.Z3_OP_BNAND:
            return self._emit(lambda a, x, m=mask: (a[0] & a[1]) ^ m, args)
        if k == Z.Z3_OP_BNOR:
            return self._emit(lambda a, x, m=mask: (a[0] | a[1]) ^ m, args)
        if k == Z.Z3_OP_BXNOR:
            return self._emit(lambda a, x, m=mask: (a[0] ^ a[1]) ^ m, args)
        if k == Z.Z3_OP_BCOMP:
            return self._emit(lambda a, x: 1 if a[0] == a[1] else 0, args)

        # structure
        if k == Z.Z3_OP_CONCAT:
            ws = [t.arg(i).sort().size() for i in range(len(args))]
            def cat(a, x, ws=ws):
                r = 0
                for v, ww in zip(a, ws):
                    r = (r << ww) | v
                return r
            return self._emit(cat, args)
        if k == Z.Z3_OP_EXTRACT:
            hi, lo = t.params()
            m2 = (1 << (hi - lo + 1)) - 1
            return self._emit(lambda a, x, lo=lo, m2=m2: (a[0] >> lo) & m2, args)
        if k == Z.Z3_OP_ZERO_EXT:
            return self._emit(lambda a, x: a[0], args)
        if k == Z.Z3_OP_SIGN_EXT:
            aw = t.arg(0).sort().size()
            return self._emit(lambda a, x, aw=aw, m=mask: to_signed(a[0], aw) & m, args)
        if k == Z.Z3_OP_REPEAT:
            (n,) = t.params()
            aw = t.arg(0).sort().size()
            def rep(a, x, n=n, aw=aw):
                r = 0
                for _ in range(n):
                    r = (r << aw) | a[0]
                return r
            return self._emit(rep, args)
        if k == Z.Z3_OP_BSHL:
            return self._emit(lambda a, x, w=w, m=mask: 0 if a[1] >= w else (a[0] << a[1]) & m, args)
        if k == Z.Z3_OP_BLSHR:
            return self._emit(lambda a, x, w=w: 0 if a[1] >= w else a[0] >> a[1], args)
        if k == Z.Z3_OP_BASHR:
            def ashr(a, x, w=w, m=mask):
                sx = to_signed(a[0], w)
                sh = min(a[1], w)
                return (sx >> sh) & m
            return self._emit(ashr, args)

        # arrays
        if k == Z.Z3_OP_SELECT:
            return self._emit(lambda a, x: a[0].select(a[1]), args)
        if k == Z.Z3_OP_STORE:
            return self._emit(lambda a, x: a[0].store(a[1], a[2]), args)
        if k == Z.Z3_OP_CONST_ARRAY:
            return self._emit(lambda a, x: Arr({}, a[0]), args)

        raise Unevaluable(f"unsupported operator {d.name()} (kind {k}) in {str(t)[:80]}")

    # -- run ----------------------------------------------------------------
    def run(self, env, ufuncs=None):
        """returns list of root values. env: name -> value, optional
        env['__default__'] = callable(name, descr).  ufuncs: name -> callable(args)"""
        vals = [None] * len(self.code)
        dflt = env.get("__default__")
        for i, (fn, args, aux) in enumerate(self.code):
            if fn is not None:
                vals[i] = fn([vals[j] for j in args], env) if args else fn((), env)
                continue
            if aux[0] == "var":
                name = aux[1]
                if name in env:
                    vals[i] = env[name]
                elif dflt is not None:
                    vals[i] = dflt(name, aux[2])
                else:
                    raise Unevaluable(f"free variable {name}")
            else:  # ufunc without standard interpretation
                name = aux[1]
                f = (ufuncs or {}).get(name)
                if f is None:
                    raise Unevaluable(f"uninterpreted function {name}")
                vals[i] = f([vals[j] for j in args])
        return [vals[r] for r in self.roots]


def evaluate(term, env, **kw):
    return Program([term], **kw).run(env)[0]


# ---------------------------------------------------------------------------
# cheap ground evaluation through z3's own simplifier (used as a cross-check of
# the evaluator above in the self test, and by the data-structure checks where
# the terms are extract/concat only)
# ---------------------------------------------------------------------------


def z3_ground(term, subst):
    """subst: list of (z3 const, z3 value)."""
    t = z3.simplify(z3.substitute(term, *subst)) if subst else z3.simplify(term)
    if z3.is_bv_value(t):
        return t.as_long()
    if z3.is_true(t):
        return True
    if z3.is_false(t):
        return False
    raise Unevaluable(f"not ground after substitution: {str(t)[:100]}")
