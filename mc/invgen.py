"""Generated invariant-testing projects (C15, C10, C16, C20): a Foundry-style
test contract whose setUp() CREATEs small stateful target contracts, with
forge-std filter getters (targetSenders() ...) and invariant_* functions, plus a
reference breadth-first search over call sequences on mc/refevm.py.

Target state: slot 0 = s, slot 1 = t.
"""

from __future__ import annotations

import itertools

from mc import asm, e2e, refevm
from mc.e2e import arg, panic

S1, S2 = 0xAAA1, 0xAAA2  # named senders

S = ["PUSH0", "SLOAD"]
T = [("push", 1), "SLOAD"]


def sset(items):
    return list(items) + ["PUSH0", "SSTORE"]


# function name -> (signature, body items, mutability)
def target_functions():
    F = {}
    F["inc"] = ("inc()", sset(S + [("push", 1), "ADD"]) + ["STOP"], "nonpayable")
    F["dec"] = ("dec()", S + ["ISZERO", ("ref", "rv"), "JUMPI"] + sset([("push", 1)] + S + ["SUB"]) + ["STOP", ("label", "rv")] + e2e.revert0(), "nonpayable")
    F["set"] = ("set(uint8)", sset(arg(0) + [("push", 0xFF), "AND"]) + ["STOP"], "nonpayable")
    F["step"] = ("step()", S + [("push", 2), "EQ", "ISZERO", ("ref", "no"), "JUMPI"] + sset([("push", 5)]) + [("label", "no"), "STOP"], "nonpayable")
    F["pay"] = ("pay()", ["CALLVALUE", "ISZERO", ("ref", "no"), "JUMPI"] + sset([("push", 9)]) + [("label", "no"), "STOP"], "payable")
    F["tick"] = ("tick()", ["TIMESTAMP", ("push", 1), "SSTORE", "STOP"], "nonpayable")
    F["own"] = ("own()", ["CALLER", ("push", S1), "EQ", "ISZERO", ("ref", "no"), "JUMPI"] + sset([("push", 7)]) + [("label", "no"), "STOP"], "nonpayable")
    F["bad"] = ("bad()", S + [("push", 3), "EQ", "ISZERO", ("ref", "ok"), "JUMPI"] + panic(1) + [("label", "ok"), "STOP"], "nonpayable")
    F["dbl"] = ("dbl()", sset(S + ["DUP1", "ADD"]) + ["STOP"], "nonpayable")
    # two successful paths that store the same term under different path constraints: require(v < 5 || v > 10); s = v
    v8 = arg(0) + [("push", 0xFF), "AND"]
    F["rng"] = ("rng(uint8)", [("push", 5)] + v8 + ["LT", ("ref", "ok"), "JUMPI"] + v8 + [("push", 10), "LT", ("ref", "ok"), "JUMPI"] + e2e.revert0() + [("label", "ok")] + sset(v8) + ["STOP"], "nonpayable")
    # two successful paths that differ *only* in one branch condition at the same position: if (v < 4) {} s = v
    F["setb"] = ("setb(uint8)", [("push", 4)] + v8 + ["LT", ("ref", "lo"), "JUMPI", ("label", "lo")] + sset(v8) + ["STOP"], "nonpayable")
    # a stored symbolic word that one function compares with a constant (the then-block is the fall-through side) and another
    # function forwards as the argument of a nested call: t = this.echo(s)
    F["setw"] = ("setw(uint256)", sset(arg(0)) + ["STOP"], "nonpayable")
    F["eq5"] = ("eq5()", e2e.if_then(S + [("push", 5), "EQ"], [("push", 1), ("push", 1), "SSTORE"], "e5") + ["STOP"], "nonpayable")
    F["fwd"] = ("fwd()", [("pushn", 4, e2e.sel("echo(uint256)")), ("push", 224), "SHL", ("push", 0x80), "MSTORE"] + S + [("push", 0x84), "MSTORE",
                          ("push", 32), ("push", 0xC0), ("push", 36), ("push", 0x80), "ADDRESS", ("push", 0xFFFFFF), "STATICCALL", "POP",
                          ("push", 0xC0), "MLOAD", ("push", 1), "SSTORE", "STOP"], "nonpayable")
    F["echo"] = ("echo(uint256)", arg(0) + ["PUSH0", "MSTORE", ("push", 32), "PUSH0", "RETURN"], "view")
    F["hit"] = ("hit()", e2e.if_then(T + ["TIMESTAMP", "EQ"], sset([("push", 9)]), "h") + ["STOP"], "nonpayable")  # s = 9 iff now == t
    F["tget"] = ("tget()", ["PUSH0", "TLOAD", "PUSH0", "MSTORE", ("push", 32), "PUSH0", "RETURN"], "view")  # the account's own transient slot 0
    # merging: two post-states that store the same term and differ only in a constraint reaching the stored value through another
    # constraint: require(x == y); if (y < 10) s = x; else s = x;
    x8, y8 = arg(0) + [("push", 0xFF), "AND"], arg(1) + [("push", 0xFF), "AND"]
    F["eqset"] = ("eqset(uint8,uint8)", e2e.if_then(y8 + x8 + ["EQ", "ISZERO"], e2e.revert0(), "ne") +
                  [("push", 10)] + y8 + ["LT", ("ref", "lo"), "JUMPI"] + sset(x8) + ["STOP", ("label", "lo")] + sset(x8) + ["STOP"], "nonpayable")
    # time gates: arm(): s 0 -> 1; late(): needs block.timestamp > 1 and s == 1, then s = 2; anyt(): s 1 -> 2 without a gate;
    # early(): needs block.timestamp <= 1 and s == 2, then t = 9.  [arm, anyt, early] at times (1,1,1) reaches t = 9
    def step_if(cur, nxt, gate=None):
        body = e2e.if_then(S + [("push", cur), "EQ", "ISZERO"], e2e.revert0(), "c")
        if gate is not None:
            body = e2e.if_then(gate, e2e.revert0(), "g") + body
        return body

    F["arm"] = ("arm()", step_if(0, 1) + sset([("push", 1)]) + ["STOP"], "nonpayable")
    F["late"] = ("late()", step_if(1, 2, [("push", 1), "TIMESTAMP", "GT", "ISZERO"]) + sset([("push", 2)]) + ["STOP"], "nonpayable")
    F["anyt"] = ("anyt()", step_if(1, 2) + sset([("push", 2)]) + ["STOP"], "nonpayable")
    F["early"] = ("early()", step_if(2, 2, [("push", 1), "TIMESTAMP", "GT"]) + [("push", 9), ("push", 1), "SSTORE", "STOP"], "nonpayable")
    # names that are reserved in the *test* contract only: in a target they are ordinary state-changing functions
    F["chk"] = ("check_in()", sset([("push", 7)]) + ["STOP"], "nonpayable")
    F["invx"] = ("invariant_x()", sset(S + [("push", 2), "ADD"]) + ["STOP"], "nonpayable")
    F["stp"] = ("setUp()", sset([("push", 5)]) + ["STOP"], "nonpayable")
    F["aft"] = ("afterInvariant()", [("push", 9), ("push", 1), "SSTORE", "STOP"], "nonpayable")
    F["prv"] = ("prove_it()", sset([("push", 3)]) + ["STOP"], "nonpayable")
    # a chain of constraints reaching the stored value, appended in the order k(x,z), branch j(z), s(S,w), i(w,x):
    # require(x == z); if (z < 5) {} ; require(S == w); require(w == x); t = S  -- two post-states with the same storage term that differ
    # only in j(z), which is tied to the state through i and k
    z8, w8 = arg(1) + [("push", 0xFF), "AND"], arg(2) + [("push", 0xFF), "AND"]
    F["chain"] = ("chain(uint8,uint8,uint8)", e2e.if_then(z8 + x8 + ["EQ", "ISZERO"], e2e.revert0(), "k") + [("push", 5)] + z8 + ["LT", ("ref", "j"), "JUMPI", ("label", "j")] +
                  e2e.if_then(w8 + S + ["EQ", "ISZERO"], e2e.revert0(), "s") + e2e.if_then(x8 + w8 + ["EQ", "ISZERO"], e2e.revert0(), "i") + S + [("push", 1), "SSTORE", "STOP"], "nonpayable")
    # who called: t = msg.sender (a later invariant on t depends on the sender restriction of an *earlier* call)
    F["claim"] = ("claim()", ["CALLER", ("push", 1), "SSTORE", "STOP"], "nonpayable")
    F["get"] = ("get()", S + ["PUSH0", "MSTORE"] + T + [("push", 32), "MSTORE", ("push", 64), "PUSH0", "RETURN"], "view")
    return F


FUNCS = target_functions()


def mk_target(name, fnames):
    funcs, views, payable = {}, [], []
    for f in list(fnames) + (["echo"] if "fwd" in fnames else []) + ["get"]:
        sig, body, mut = FUNCS[f]
        funcs[sig] = body
        if mut == "view":
            views.append(sig)
        if mut == "payable":
            payable.append(sig)
    return e2e.Contract(name, funcs, views=views, payable=payable, filename=f"{name}.sol")


def abi_address_array(items_code):
    """code returning abi.encode(address[]) with elements computed by the given item lists"""
    out = [("push", 32), "PUSH0", "MSTORE", ("push", len(items_code)), ("push", 32), "MSTORE"]
    for i, it in enumerate(items_code):
        out += list(it) + [("push", 64 + 32 * i), "MSTORE"]
    return out + [("push", 64 + 32 * len(items_code)), "PUSH0", "RETURN"]


def abi_fuzz_selectors(entries):
    """entries: list of (address items, [selector ints]) -> code returning abi.encode(FuzzSelector[])"""
    # layout: 0x00: 0x20 ; 0x20: n ; then n offsets (relative to 0x40) ; then the items
    n = len(entries)
    words = []
    item_offs = []
    pos = 32 * n
    bodies = []
    for addr_items, sels in entries:
        item_offs.append(pos)
        body = [("addr", addr_items), ("w", 64), ("w", len(sels))] + [("w", s << 224) for s in sels]
        bodies.append(body)
        pos += 32 * len(body)
    flat = [("w", 32), ("w", n)] + [("w", o) for o in item_offs]
    for b in bodies:
        flat += b
    out = []
    for i, (k, v) in enumerate(flat):
        out += (list(v) if k == "addr" else [("pushn", 32, v)]) + [("push", 32 * i), "MSTORE"]
    return out + [("push", 32 * len(flat)), "PUSH0", "RETURN"]


TARGET_SLOT = 0x10  # test contract: address of target i at slot 0x10 + i


def target_addr(i):
    return [("push", TARGET_SLOT + i), "SLOAD"]


def invariant_body(i, field, rel, c):
    """STATICCALL target i .get(); fail with Panic(1) if the invariant is broken.  rel: 'ne' (s != c) | 'le' (s <= c) | 'lenow' (value <= block.timestamp)"""
    load = [("pushn", 4, e2e.sel("get()")), ("push", 224), "SHL", "PUSH0", "MSTORE",
            ("push", 64), ("push", 0x40), ("push", 4), "PUSH0"] + target_addr(i) + [("push", 0xFFFFFF), "STATICCALL", "POP",
            ("push", 0x40 + (0 if field == "s" else 32)), "MLOAD"]
    if rel == "nebr":  # as "ne", after two branches on the value that change nothing (several paths per symbolic state)
        pre = e2e.if_then(load + [("push", 100), "EQ"], [], "b1") + e2e.if_then(load + [("push", 101), "EQ"], [], "b2")
        return pre + e2e.if_then(load + [("push", c), "EQ"], panic(1), "brk") + ["STOP"]
    if rel == "loopne":  # i = 0; while (i < value) i++; broken iff i == c  (a loop on a stored, possibly symbolic, value inside the invariant body)
        broken = load + ["PUSH0", ("label", "ltop"), "DUP2", "DUP2", "LT", "ISZERO", ("ref", "lexit"), "JUMPI", ("push", 1), "ADD", ("ref", "ltop"), "JUMP", ("label", "lexit"),
                         ("push", c), "EQ", "SWAP1", "POP"]
    elif rel == "ne":
        broken = load + [("push", c), "EQ"]
    elif rel == "lenow":  # value <= block.timestamp: broken iff TIMESTAMP < value (time never goes backwards along a call sequence)
        broken = load + ["TIMESTAMP", "LT"]
    else:
        broken = [("push", c)] + load + ["GT"]  # value > c
    return e2e.if_then(broken, panic(1), "brk") + ["STOP"]


class Project:
    """description (json-able) -> contracts.

    desc = {"targets": [[fn names], ...], "invariants": [[target idx, field, rel, c], ...],
            "filters": {"targetSenders": [..], "excludeSenders": [..], "targetContracts": [idx..], "excludeContracts": [idx..],
                        "targetSelectors": [[idx, [fn names]], ...], "excludeSelectors": [[idx, [fn names]], ...]} | None,
            "extra_tests": {sig: body} optional}
    """

    def __init__(self, desc):
        self.desc = desc
        self.targets = [mk_target(f"Target{i}", fns) for i, fns in enumerate(desc["targets"])]
        self.test = self._mk_test()

    def _mk_test(self):
        d = self.desc
        setup = []
        datas = []
        for i, t in enumerate(self.targets):
            init = t.creation()
            setup += [("sizeof", f"init{i}"), ("offsetof", f"init{i}"), ("push", 0x100), "CODECOPY",
                      ("sizeof", f"init{i}"), ("push", 0x100), "PUSH0", "CREATE", ("push", TARGET_SLOT + i), "SSTORE"]
            datas.append(("data", f"init{i}", init))
        for it in d.get("setup_extra", []):
            setup += it
        setup += ["STOP"] + datas
        funcs = {"setUp()": setup}
        views = []
        for k, (ti, field, rel, c) in enumerate(d["invariants"]):
            funcs[f"invariant_{k}()"] = invariant_body(ti, field, rel, c)
        flt = d.get("filters")
        if flt is not None:
            def addr_of(x):
                return target_addr(x) if isinstance(x, int) and x < 16 else [("pushn", 20, x)]

            funcs["targetSenders()"] = abi_address_array([[("pushn", 20, a)] for a in flt.get("targetSenders", [])])
            funcs["excludeSenders()"] = abi_address_array([[("pushn", 20, a)] for a in flt.get("excludeSenders", [])])
            funcs["targetContracts()"] = abi_address_array([addr_of(i) for i in flt.get("targetContracts", [])])
            funcs["excludeContracts()"] = abi_address_array([addr_of(i) for i in flt.get("excludeContracts", [])])
            funcs["targetSelectors()"] = abi_fuzz_selectors([(addr_of(i), [e2e.sel(FUNCS[f][0]) for f in fns]) for i, fns in flt.get("targetSelectors", [])])
            funcs["excludeSelectors()"] = abi_fuzz_selectors([(addr_of(i), [e2e.sel(FUNCS[f][0]) for f in fns]) for i, fns in flt.get("excludeSelectors", [])])
            views = ["targetSenders()", "excludeSenders()", "targetContracts()", "excludeContracts()", "targetSelectors()", "excludeSelectors()"]
        for sig, body in (d.get("extra_tests") or {}).items():
            funcs[sig] = body
        return e2e.Contract("InvTest", funcs, views=views, filename="InvTest.t.sol")

    def invariant_sigs(self):
        return [f"invariant_{k}()" for k in range(len(self.desc["invariants"]))]


# ---------------------------------------------------------------------------
# reference: Foundry's filter resolution + BFS over call sequences
# ---------------------------------------------------------------------------

ARG_DOMAIN = {"set(uint8)": [0, 1, 2, 3, 4, 5, 7, 9, 12, 255, 256 + 3], "rng(uint8)": [0, 2, 3, 4, 5, 7, 9, 10, 11, 12, 255],
              "setb(uint8)": [0, 1, 2, 3, 4, 5, 7, 9, 12, 255], "setw(uint256)": [0, 1, 5, 7, 2**255],
              "eqset(uint8,uint8)": [(5, 5), (12, 12), (5, 6), (0, 0)],
              "chain(uint8,uint8,uint8)": [(1, 1, 1), (7, 7, 7), (5, 5, 5), (1, 2, 1), (0, 0, 0), (7, 7, 1)]}
TIME_FUNCS = ("tick", "hit", "late", "early")
VALUE_DOMAIN = [0, 1]
DEFAULT_SENDER = 0xBEEF


def resolve_filters(desc):
    """-> (list of (target idx, fn name), list of senders)"""
    flt = desc.get("filters") or {}
    nt = len(desc["targets"])
    tc = flt.get("targetContracts", [])
    contracts = set(tc) if tc else set(range(nt))
    contracts -= set(flt.get("excludeContracts", []))
    tsel = {}
    for i, fns in flt.get("targetSelectors", []):
        tsel.setdefault(i, []).extend(fns)
    esel = {}
    for i, fns in flt.get("excludeSelectors", []):
        esel.setdefault(i, []).extend(fns)
    contracts |= set(tsel)
    calls = []
    for i in sorted(contracts):
        fns = [f for f in desc["targets"][i]]
        if tsel.get(i):
            fns = [f for f in fns if f in tsel[i]]
        elif esel.get(i):
            fns = [f for f in fns if f not in esel[i]]
        for f in fns:
            calls.append((i, f))
    ts = [a for a in flt.get("targetSenders", []) if a not in flt.get("excludeSenders", [])]
    if ts:
        senders = ts
    else:
        senders = [a for a in (S1, S2, DEFAULT_SENDER) if a not in flt.get("excludeSenders", [])]
    return calls, senders


def world_key(w, addrs):
    return tuple((w.storage.get(a, {}).get(0, 0), w.storage.get(a, {}).get(1, 0)) for a in addrs) + (w.block["timestamp"],)


def reference_bfs(project, max_depth, panic_codes=(1,), first_call_at_setup_time=False):
    """returns {"broken": {invariant idx: min depth}, "probe_fail_depth": min depth of an assertion failure inside a target,
    "states": {depth: set of target-state tuples}}"""
    desc = project.desc
    w0 = e2e.ref_deploy(project.test, extra=None)
    o = e2e.ref_call(w0, "setUp()")
    if o.kind != "success":
        raise RuntimeError(f"reference setUp failed: {o}")
    addrs = [w0.storage[e2e.TEST][TARGET_SLOT + i] for i in range(len(desc["targets"]))]
    calls, senders = resolve_filters(desc)
    broken = {}
    probe = None

    def check_inv(w, depth):
        for k, sig in enumerate(project.invariant_sigs()):
            if k in broken:
                continue
            r = e2e.ref_call(e2e.clone_world(w), sig, panic_codes=panic_codes)
            if r.kind == "fail":
                broken[k] = depth

    frontier = {world_key(w0, addrs): w0}
    states = {0: {world_key(w0, addrs)[:-1]}}
    check_inv(w0, 0)
    seen = set(frontier)
    for depth in range(1, max_depth + 1):
        nxt = {}
        for w in frontier.values():
            for (ti, f) in calls:
                sig = FUNCS[f][0]
                for a in ARG_DOMAIN.get(sig, [None]):
                    for snd in senders:
                        for val in (VALUE_DOMAIN if f == "pay" else [0]):
                            for dt in ((0, 1) if (any(tf in t for t in desc["targets"] for tf in TIME_FUNCS) and not (first_call_at_setup_time and depth == 1)) else (0,)):
                                w2 = e2e.clone_world(w)
                                w2.block["timestamp"] = w.block["timestamp"] + dt
                                r = e2e.ref_call(w2, sig, (list(a) if isinstance(a, tuple) else [a]) if a is not None else [], panic_codes=panic_codes, value=val, caller=snd, origin=snd, target=addrs[ti])
                                if r.kind == "fail":
                                    if probe is None:
                                        probe = depth
                                    continue
                                if r.kind != "success":
                                    continue
                                k = world_key(w2, addrs)
                                if k in seen:
                                    continue
                                seen.add(k)
                                nxt[k] = w2
                                check_inv(w2, depth)
        states[depth] = {k[:-1] for k in nxt}
        frontier = nxt
        if not frontier:
            break
    return {"broken": broken, "probe_fail_depth": probe, "states": states, "addrs": addrs, "calls": calls, "senders": senders}
