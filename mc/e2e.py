"""End-to-end driver: hand-assembled Foundry-style test contracts, forge-style
artefact dicts, and run_contract()/_main() of the real halmos on them (no
forge, no solc).  Also the reference-side runner (refevm + refcheats) for the
same contracts.

A contract is described by

    Contract(name, funcs={sig: body_items}, ctor=[items], natspec=None, devdoc={sig: "--loop 3"})

`body_items` are asm items (mc/asm.py) executed after the dispatcher matched
the selector; they must end in a terminator.  Arguments are read with
CALLDATALOAD(4 + 32*i).
"""

from __future__ import annotations

import contextlib
import io
import json
import os
import re
import shutil
import tempfile

from eth_hash.auto import keccak

from mc import asm, refevm

HEVM = 0x7109709ECFA91A80626FF3989D68F67F5B1DD12D
SVM = 0xF3993A62377BCD56AE39D773740A5390411E8BC9
CONSOLE = 0x000000000000000000636F6E736F6C652E6C6F67
TEST = 0x7FA9385BE102AC3EAC297483DD6233D62B3E1496
CALLER = 0x1804C8AB1F12E6BBF3894D4083F33E07309D1F38
TEST_BALANCE = 0xFFFFFFFFFFFFFFFFFFFFFFFF
PANIC_SEL = 0x4E487B71


def sel(sig: str) -> int:
    return int.from_bytes(keccak(sig.encode())[:4], "big")


# ---------------------------------------------------------------------------
# code helpers
# ---------------------------------------------------------------------------


def arg(i):
    return [("push", 4 + 32 * i), "CALLDATALOAD"]


def panic(code):
    return [("pushn", 4, PANIC_SEL), ("push", 224), "SHL", "PUSH0", "MSTORE", ("push", code), ("push", 4), "MSTORE", ("push", 36), "PUSH0", "REVERT"]


def revert0():
    return ["PUSH0", "PUSH0", "REVERT"]


def ret_word(items):
    return list(items) + ["PUSH0", "MSTORE", ("push", 32), "PUSH0", "RETURN"]


def cheat_call(addr, sig_or_sel, args_items=(), mem=0x80, retsize=0, pop=True, kind="CALL"):
    """call a cheatcode with static word arguments (each element of args_items is an item list leaving a word)"""
    s = sig_or_sel if isinstance(sig_or_sel, int) else sel(sig_or_sel)
    out = [("pushn", 4, s), ("push", 224), "SHL", ("push", mem), "MSTORE"]
    for i, a in enumerate(args_items):
        out += list(a) + [("push", mem + 4 + 32 * i), "MSTORE"]
    n = 4 + 32 * len(args_items)
    if kind == "CALL":
        out += [("push", retsize), ("push", mem), ("push", n), ("push", mem), "PUSH0", ("pushn", 20, addr), ("push", 0xFFFFFF), "CALL"]
    else:
        out += [("push", retsize), ("push", mem), ("push", n), ("push", mem), ("pushn", 20, addr), ("push", 0xFFFFFF), "STATICCALL"]
    if pop:
        out.append("POP")
    return out


def vm(sig, *args, **kw):
    return cheat_call(HEVM, sig, args, **kw)


def svm(sig, *args, **kw):
    return cheat_call(SVM, sig, args, **kw)


def ds_fail():
    """DSTest.fail(): vm.store(HEVM, bytes32("failed"), bytes32(1))"""
    failed = int.from_bytes(b"failed".ljust(32, b"\x00"), "big")
    return vm("store(address,bytes32,bytes32)", [("pushn", 20, HEVM)], [("pushn", 32, failed)], [("push", 1)])


def if_then(cond_items, then_items, label):
    """if (cond != 0) { then }"""
    return list(cond_items) + ["ISZERO", ("ref", label), "JUMPI"] + list(then_items) + [("label", label)]


# ---------------------------------------------------------------------------
# contracts and artefacts
# ---------------------------------------------------------------------------


def parse_types(s):
    """'uint256,(uint8,bytes)[2],bytes' -> list of abi input dicts"""
    out, depth, cur = [], 0, ""
    for ch in s:
        if ch == "," and depth == 0:
            out.append(cur)
            cur = ""
            continue
        depth += ch == "("
        depth -= ch == ")"
        cur += ch
    if cur:
        out.append(cur)
    res = []
    for i, t in enumerate(out):
        res.append(abi_type(t, f"a{i}"))
    return res


def abi_type(t, name):
    if t.startswith("("):
        close = t.rindex(")")
        return {"name": name, "type": "tuple" + t[close + 1 :], "components": parse_types(t[1:close]), "internalType": "struct S"}
    return {"name": name, "type": t, "internalType": t}


def abi_of(sig, mutability="nonpayable"):
    name, rest = sig.split("(", 1)
    return {"type": "function", "name": name, "inputs": parse_types(rest[:-1]), "outputs": [], "stateMutability": mutability}


class Contract:
    def __init__(self, name, funcs, ctor=(), natspec=None, devdoc=None, filename=None, fallback=None, payable_fallback=False, views=(), payable=()):
        self.name = name
        self.funcs = dict(funcs)
        self.ctor = list(ctor)
        self.natspec = natspec
        self.devdoc = dict(devdoc or {})
        self.filename = filename or f"{name}.t.sol"
        self.fallback = fallback
        self.views = set(views)
        self.payable = set(payable)
        self._rt = None

    def runtime(self) -> bytes:
        if self._rt is None:
            items = ["PUSH0", "CALLDATALOAD", ("push", 224), "SHR"]
            for i, sig in enumerate(self.funcs):
                items += ["DUP1", ("pushn", 4, sel(sig)), "EQ", ("ref", f"f{i}"), "JUMPI"]
            items += list(self.fallback) if self.fallback is not None else ["PUSH0", "PUSH0", "REVERT"]
            for i, (sig, body) in enumerate(self.funcs.items()):
                items += [("label", f"f{i}"), "POP"] + scoped(body, f"f{i}_")
            self._rt = asm.assemble(items)
        return self._rt

    def creation(self) -> bytes:
        rt = self.runtime()
        items = scoped(self.ctor, "c_") + [("sizeof", "rt"), "DUP1", ("offsetof", "rt"), "PUSH0", "CODECOPY", "PUSH0", "RETURN", ("data", "rt", rt)]
        return asm.assemble(items)

    def artifact(self, idx=0):
        nodes = [{"nodeType": "ContractDefinition", "name": self.name, "contractKind": "contract", "abstract": False, "nodes": [], "id": 100 + idx}]
        if self.natspec:
            nodes[0]["documentation"] = {"text": self.natspec, "nodeType": "StructuredDocumentation"}
        methods = {sig: {"custom:halmos": v} for sig, v in self.devdoc.items()}
        return {
            "abi": [abi_of(sig, "view" if sig in self.views else "payable" if sig in self.payable else "nonpayable") for sig in self.funcs],
            "methodIdentifiers": {sig: f"{sel(sig):08x}" for sig in self.funcs},
            "bytecode": {"object": "0x" + self.creation().hex(), "linkReferences": {}},
            "deployedBytecode": {"object": "0x" + self.runtime().hex(), "linkReferences": {}, "immutableReferences": {}},
            "ast": {"absolutePath": f"test/{self.filename}", "nodeType": "SourceUnit", "nodes": nodes, "id": 1000 + idx},
            "metadata": {"compiler": {"version": "0.8.26+commit.8a97fa7a"}, "output": {"devdoc": {"methods": methods}}},
            "id": idx,
        }


def scoped(items, prefix):
    """rename labels/refs of a body so that bodies can be composed"""
    out = []
    for it in items:
        if isinstance(it, tuple) and it[0] in ("label", "ref"):
            out.append((it[0], prefix + str(it[1])))
        else:
            out.append(it)
    return out


# ---------------------------------------------------------------------------
# running halmos
# ---------------------------------------------------------------------------

_WORK = None


def workdir():
    global _WORK
    if _WORK is None:
        base = os.environ.get("VERIF_RUN_TMP") or os.path.join(os.path.dirname(os.path.dirname(os.path.abspath(__file__))), ".work")
        os.makedirs(base, exist_ok=True)
        _WORK = tempfile.mkdtemp(prefix=f"w{os.getpid()}_", dir=base)
        import atexit

        atexit.register(shutil.rmtree, _WORK, True)
    return _WORK


_CFG_CACHE = {}


def options_to_argv(options):
    argv = []
    for k, v in (options or {}).items():
        flag = "--" + k.replace("_", "-")
        if v is True:
            argv.append(flag)
        elif v is False or v is None:
            continue
        else:
            argv += [flag, str(v)]
    return argv


def mk_config(options=None, base=None):
    """options are given as on the command line (values are strings/ints, parsed by halmos's own arg parser)"""
    from halmos.config import ConfigSource, arg_parser, default_config

    opts = dict(solver_timeout_branching=0, solver_timeout_assertion="2s", no_status=True, solver_threads=1)
    opts.update(options or {})
    key = (tuple(sorted((k, str(v)) for k, v in opts.items())), id(base))
    if key in _CFG_CACHE:
        return _CFG_CACHE[key]
    cfg = base if base is not None else default_config()
    overrides = arg_parser().parse_args(options_to_argv(opts))
    cfg = cfg.with_overrides(ConfigSource.command_line, **vars(overrides))
    _CFG_CACHE[key] = cfg
    return cfg


class RunResult:
    def __init__(self):
        self.results = []
        self.stdout = ""
        self.logs = []
        self.exception = None
        self.ctx = None

    def by_name(self):
        return {r.name: r for r in self.results}

    def warnings(self):
        return [m for (lvl, m) in self.logs if lvl in ("WARNING", "ERROR")]


def build_out_map(contracts):
    m = {}
    for i, c in enumerate(contracts):
        art = c.artifact(i)
        m.setdefault(c.filename, {})[c.name] = (art, "contract", art["ast"]["nodes"][0].get("documentation"))
    return m


def run_contract(contract, funsigs=None, options=None, others=(), reset_unique=True, config=None, apply_natspec=True):
    """runs halmos.__main__.run_contract on `contract`; `others` = further contracts whose artefacts
    are in the build output (targets created in setUp)."""
    import halmos.__main__ as hm
    from halmos.calldata import get_abi
    from halmos.solve import ContractContext

    from mc import hdriver

    hdriver.install_logging()
    if reset_unique:
        hdriver.reset_unique_filter()
    hdriver.drain_logs()
    bmap = build_out_map([contract] + list(others))
    art = bmap[contract.filename][contract.name][0]
    if funsigs is None:
        funsigs = [s for s in contract.funcs if s.startswith(("check_", "invariant_", "test_", "prove_"))]
    args = config if config is not None else mk_config(options)
    if apply_natspec and contract.natspec:
        args = hm.with_natspec(args, contract.name, {"text": contract.natspec})
    ctx = ContractContext(
        args=args,
        name=contract.name,
        funsigs=list(funsigs),
        creation_hexcode=art["bytecode"]["object"],
        deployed_hexcode=art["deployedBytecode"]["object"],
        abi=get_abi(art),
        method_identifiers=art["methodIdentifiers"],
        contract_json=art,
        libs={},
        build_out_map=bmap,
    )
    rr = RunResult()
    rr.ctx = ctx
    buf = io.StringIO()
    # the cyclic collector may otherwise run inside one of halmos's solver threads and release z3 objects there while the main
    # thread is using the same z3 context (z3 is not thread safe): collect only at this safe point
    import gc

    nogc = os.environ.get("VERIF_E2E_GC") != "free"
    if nogc:
        gc.collect()
        gc.disable()
    try:
        with contextlib.redirect_stdout(buf), contextlib.redirect_stderr(buf):
            try:
                rr.results = hm.run_contract(ctx)
            except BaseException as e:  # noqa
                if isinstance(e, KeyboardInterrupt):
                    raise
                rr.exception = e
    finally:
        if nogc:
            gc.enable()
    rr.stdout = buf.getvalue()
    rr.logs = hdriver.drain_logs()
    return rr


def write_out_dir(root, contracts):
    out = os.path.join(root, "out")
    for i, c in enumerate(contracts):
        d = os.path.join(out, c.filename)
        os.makedirs(d, exist_ok=True)
        with open(os.path.join(d, f"{c.name}.json"), "w") as f:
            json.dump(c.artifact(i), f)
    return out


def run_main(contracts, argv=(), toml=None):
    """runs halmos.__main__._main with a no-op `forge` first on PATH; returns (MainResult|None, stdout, logs, exception)"""
    import halmos.__main__ as hm

    from mc import hdriver

    hdriver.install_logging()
    hdriver.reset_unique_filter()
    hdriver.drain_logs()
    root = tempfile.mkdtemp(prefix="proj_", dir=workdir())
    write_out_dir(root, contracts)
    bindir = os.path.join(root, "bin")
    os.makedirs(bindir)
    forge = os.path.join(bindir, "forge")
    with open(forge, "w") as f:
        f.write("#!/bin/sh\nexit 0\n")
    os.chmod(forge, 0o755)
    if toml is not None:
        with open(os.path.join(root, "halmos.toml"), "w") as f:
            f.write(toml)
    old_path = os.environ.get("PATH", "")
    os.environ["PATH"] = bindir + os.pathsep + old_path
    buf = io.StringIO()
    res, exc = None, None
    import signal

    old_handlers = {s: signal.getsignal(s) for s in (signal.SIGINT, signal.SIGTERM)}
    import gc

    gc.collect()
    gc.disable()
    try:
        with contextlib.redirect_stdout(buf), contextlib.redirect_stderr(buf):
            try:
                res = hm._main(["--root", root, "--no-status", "--solver-timeout-branching", "0", "--solver-timeout-assertion", "0", "--solver-threads", "1"] + list(argv))
            except SystemExit as e:
                exc = e
            except Exception as e:  # noqa
                exc = e
    finally:
        gc.enable()
        os.environ["PATH"] = old_path
        for s, h in old_handlers.items():
            try:
                signal.signal(s, h)
            except Exception:
                pass
        shutil.rmtree(root, ignore_errors=True)
    return res, buf.getvalue(), hdriver.drain_logs(), exc


# ---------------------------------------------------------------------------
# reference side
# ---------------------------------------------------------------------------


class RefOutcome:
    __slots__ = ("kind", "ok", "ret", "err", "panic", "fail_flag", "world", "discard", "unsupported")

    def __repr__(self):
        return f"RefOutcome({self.kind}, panic={self.panic}, fail={self.fail_flag})"


def classify(ok, ret, err, world, panic_codes=(1,)):
    o = RefOutcome()
    o.ok, o.ret, o.err, o.world = ok, ret, err, world
    o.panic = None
    o.fail_flag = world.fail_flag
    o.discard = False
    o.unsupported = None
    if not ok and err == "Revert" and len(ret) == 36 and int.from_bytes(ret[:4], "big") == PANIC_SEL:
        o.panic = int.from_bytes(ret[4:], "big")
    if o.fail_flag:
        o.kind = "fail"
    elif o.panic is not None and (not panic_codes or o.panic in panic_codes):
        o.kind = "fail"
    elif ok:
        o.kind = "success"
    else:
        o.kind = "revert"
    return o


def ref_world(contracts_at, tape=None):
    """contracts_at: {addr: runtime bytes}"""
    from mc import refcheats

    w = refevm.World()
    for a, code in contracts_at.items():
        w.code[a] = bytes(code)
        w.storage[a] = {}
        w.transient[a] = {}
    w.balance[TEST] = TEST_BALANCE
    refcheats.install(w, tape=tape)
    return w


def ref_deploy(contract, tape=None, extra=None):
    """deploys the test contract through its creation code at TEST (so constructors run) and returns the world"""
    from mc import refcheats

    w = refevm.World()
    w.balance[TEST] = TEST_BALANCE
    refcheats.install(w, tape=tape)
    for a, code in (extra or {}).items():
        w.code[a] = bytes(code)
        w.storage[a] = {}
        w.transient[a] = {}
    msg = refevm.Msg(TEST, CALLER, CALLER, 0, b"", is_create=True, code=contract.creation())
    ok, ret, err = refevm.run_message(w, msg)
    if not ok:
        raise RuntimeError(f"reference constructor failed: {err}")
    return w


def ref_call(world, sig_or_data, args=(), panic_codes=(1,), value=0, caller=CALLER, origin=CALLER, target=TEST):
    """one top-level transaction on the reference world (mutates it on success). args: words or raw calldata bytes"""
    from mc import refcheats

    if isinstance(sig_or_data, (bytes, bytearray)):
        data = bytes(sig_or_data)
    else:
        data = sel(sig_or_data).to_bytes(4, "big") + b"".join(int(a).to_bytes(32, "big") for a in args)
    world.fail_flag = False
    try:
        ok, ret, err = refevm.transact(world, target, caller, origin, value, data)
    except refcheats.TestFailed:
        o = classify(False, b"", "FailCheatcode", world, panic_codes)
        o.kind = "fail"
        o.fail_flag = True
        return o
    except refevm.Discard:
        o = classify(False, b"", "Discard", world, panic_codes)
        o.kind = "discard"
        o.discard = True
        return o
    except refevm.Unsupported as e:
        o = classify(False, b"", "Unsupported", world, panic_codes)
        o.kind = "unsupported"
        o.unsupported = str(e)
        return o
    except refcheats.CheatError as e:
        o = classify(False, b"", "CheatError", world, panic_codes)
        o.kind = "cheat_error"
        o.unsupported = str(e)
        return o
    return classify(ok, ret, err, world, panic_codes)


def clone_world(w):
    import copy

    n = refevm.World()
    n.code = dict(w.code)
    n.storage = {a: dict(s) for a, s in w.storage.items()}
    n.transient = {a: dict(s) for a, s in w.transient.items()}
    n.balance = dict(w.balance)
    n.block = dict(w.block)
    n.cheats = w.cheats
    n.created = list(w.created)
    n.addr_oracle = w.addr_oracle
    n.tape = copy.copy(getattr(w, "tape", None))
    return n
