"""One program, all inputs: runs a world spec once symbolically on the real
SEVM and, for every input of a finite grid, compares every reported path whose
constraints the input satisfies with the reference EVM (soundness, C01), and
checks that some path covers the input (coverage, C02)."""

from __future__ import annotations

import time

from mc import hdriver
from mc.symeval import Unevaluable


PRECOMPILE_FUNS = ("f_ecrecover", "f_sha256", "f_ripemd160", "f_modexp", "f_ecadd", "f_ecmul", "f_ecpairing", "f_blake2f", "f_point_evaluation")


def outside_alphabet(msg):
    """terms that only arise when a program reaches a precompile other than identity: excluded from the alphabets (DESIGN B.1)"""
    return any(f in msg for f in PRECOMPILE_FUNS)


class Issue:
    def __init__(self, kind, detail, inputs=None, path=None):
        self.kind, self.detail, self.inputs, self.path = kind, detail, inputs, path

    def __repr__(self):
        return f"Issue({self.kind}: {self.detail} inputs={self.inputs})"


def fmt_outcome(o):
    err, data, logs = o
    d = data.hex() if isinstance(data, (bytes, bytearray)) else str(data)
    if len(d) > 200:
        d = d[:200] + "..."
    return f"err={err} data={d} logs={len(logs)}"


def check_program(spec, grid, want_coverage=True, max_issues=5, results=None, skip_kinds=()):
    """returns (issues, stats).  `grid`: iterable of input dicts.

    soundness: for every input i and every non-stuck path p with conds(p)[i] true:
               outcome(p)[i] == reference(i)
    coverage : every input the reference accepts is satisfied by >= 1 path (stuck paths count
               as covering: they are flagged), unless the reference says Unsupported."""
    issues = []
    stats = {"paths": 0, "stuck": 0, "inputs": 0, "covered": 0, "skipped_inputs": 0, "pairs": 0, "outcomes": set()}
    t0 = time.time()
    if results is None:
        try:
            results, syms, info = hdriver.run_halmos(spec)
        except Exception as e:  # halmos itself crashed: no path reported at all
            import traceback

            return [Issue("crash", f"{type(e).__name__}: {e}", None)], dict(stats, crash=traceback.format_exc())
    else:
        results, syms, info = results
    stats["paths"] = len(results)
    stats["info"] = info
    evals = []
    for idx, pr in enumerate(results):
        try:
            evals.append((idx, pr, hdriver.PathEval(pr, syms)))
        except Unevaluable as e:
            issues.append(Issue("unevaluable", f"path {idx}: {e}"))
            return issues, stats
        if pr.kind == "stuck":
            stats["stuck"] += 1
    ref_cache = {}
    for inputs in grid:
        stats["inputs"] += 1
        env = hdriver.mk_env(inputs, spec.get("symbolic_storage"))
        covered = False
        ref_plain = None
        for idx, pr, pe in evals:
            try:
                sat, assumption_ok, outcome = pe.run(env)
            except Unevaluable as e:
                if outside_alphabet(str(e)):
                    stats["skipped_inputs"] += 1
                    continue
                issues.append(Issue("unevaluable", f"path {idx}: {e}", inputs))
                return issues, stats
            if not sat:
                continue
            if not assumption_ok:
                continue
            covered = True
            if pr.kind == "stuck":
                continue
            stats["pairs"] += 1
            creates = pr.creates or None
            if creates is None:
                if ref_plain is None:
                    ref_plain, _ = hdriver.run_reference(spec, inputs)
                ref = ref_plain
            else:
                ref, _ = hdriver.run_reference(spec, inputs, creates=creates)
            if ref[0] in ("Unsupported", "Limit"):
                stats["skipped_inputs"] += 1
                continue
            if ref[0] == "CheatError":
                # Foundry rejects the cheatcode call itself; halmos must not report a normal outcome for this input
                if len(issues) < max_issues:
                    issues.append(Issue("unsound", f"path {idx} claims {fmt_outcome(outcome)}; the cheatcode sequence is an error in Foundry ({ref[1]})", inputs, idx))
                continue
            if ref[0] in skip_kinds:
                continue
            stats["outcomes"].add((ref[0], hash(ref[1]) if isinstance(ref[1], bytes) else None, len(ref[2])))
            if tuple(outcome[:2]) != tuple(ref[:2]) or list(outcome[2]) != list(ref[2]):
                if len(issues) < max_issues:
                    issues.append(Issue("unsound", f"path {idx} claims {fmt_outcome(outcome)}; EVM gives {fmt_outcome(ref)}", inputs, idx))
        # the same paths under a valuation in which every initial array that must be empty holds a non-zero value: a path that is
        # still satisfied reads such an array without its zero-initialisation axiom, and its outcome must still be the EVM's
        if stats["inputs"] % 3 == 1:
            env2 = hdriver.mk_env(inputs, spec.get("symbolic_storage"), alt=True)
            for idx, pr, pe in evals:
                if pr.kind == "stuck":
                    continue
                try:
                    sat2, ok2, outcome2 = pe.run(env2)
                except Unevaluable:
                    continue
                if not (sat2 and ok2):
                    continue
                stats["pairs_alt"] = stats.get("pairs_alt", 0) + 1
                if pr.creates:
                    ref2, _ = hdriver.run_reference(spec, inputs, creates=pr.creates)
                else:
                    if ref_plain is None:
                        ref_plain, _ = hdriver.run_reference(spec, inputs)
                    ref2 = ref_plain
                if ref2[0] in ("Unsupported", "Limit", "CheatError", "Discard") or ref2[0] in skip_kinds:
                    continue
                if tuple(outcome2[:2]) != tuple(ref2[:2]) or list(outcome2[2]) != list(ref2[2]):
                    if len(issues) < max_issues:
                        issues.append(Issue("unsound", f"path {idx} claims {fmt_outcome(outcome2)} when the initial (empty) storage/balance arrays it reads are not forced to zero by its constraints; EVM gives {fmt_outcome(ref2)}", inputs, idx))
        if covered:
            stats["covered"] += 1
        elif want_coverage and (info or {}).get("bounded_loops"):
            stats["skipped_inputs"] += 1  # halmos flagged the exploration as bounded (loop unrolling): no coverage claim (C10 demands the flag)
        elif want_coverage:
            if ref_plain is None:
                ref_plain, _ = hdriver.run_reference(spec, inputs)
            if ref_plain[0] in ("Unsupported", "Limit", "Discard", "CheatError"):
                stats["skipped_inputs"] += 1
                continue
            if len(issues) < max_issues:
                issues.append(Issue("uncovered", f"no reported path covers this input; EVM gives {fmt_outcome(ref_plain)}", inputs))
    stats["wall"] = time.time() - t0
    return issues, stats
