"""Tiny EVM assembler: programs are lists of items

    "ADD"                 mnemonic
    0x01                  raw opcode byte
    ("push", value)       smallest PUSHn holding value (PUSH0 for 0)
    ("pushn", n, value)   PUSHn with exactly n bytes
    ("label", "name")     JUMPDEST at this position, remembered as name
    ("ref", "name")       PUSH2 <address of label>
    ("raw", b"...")       raw bytes
    ("sizeof", "name")/("offsetof","name")  PUSH2 of the size/offset of a named data blob
    ("data", "name", b"...")  named raw bytes (no JUMPDEST)
"""

from __future__ import annotations

OPC = {
    "STOP": 0x00, "ADD": 0x01, "MUL": 0x02, "SUB": 0x03, "DIV": 0x04, "SDIV": 0x05, "MOD": 0x06, "SMOD": 0x07,
    "ADDMOD": 0x08, "MULMOD": 0x09, "EXP": 0x0A, "SIGNEXTEND": 0x0B,
    "LT": 0x10, "GT": 0x11, "SLT": 0x12, "SGT": 0x13, "EQ": 0x14, "ISZERO": 0x15, "AND": 0x16, "OR": 0x17,
    "XOR": 0x18, "NOT": 0x19, "BYTE": 0x1A, "SHL": 0x1B, "SHR": 0x1C, "SAR": 0x1D,
    "SHA3": 0x20,
    "ADDRESS": 0x30, "BALANCE": 0x31, "ORIGIN": 0x32, "CALLER": 0x33, "CALLVALUE": 0x34, "CALLDATALOAD": 0x35,
    "CALLDATASIZE": 0x36, "CALLDATACOPY": 0x37, "CODESIZE": 0x38, "CODECOPY": 0x39, "GASPRICE": 0x3A,
    "EXTCODESIZE": 0x3B, "EXTCODECOPY": 0x3C, "RETURNDATASIZE": 0x3D, "RETURNDATACOPY": 0x3E, "EXTCODEHASH": 0x3F,
    "BLOCKHASH": 0x40, "COINBASE": 0x41, "TIMESTAMP": 0x42, "NUMBER": 0x43, "DIFFICULTY": 0x44, "GASLIMIT": 0x45,
    "CHAINID": 0x46, "SELFBALANCE": 0x47, "BASEFEE": 0x48,
    "POP": 0x50, "MLOAD": 0x51, "MSTORE": 0x52, "MSTORE8": 0x53, "SLOAD": 0x54, "SSTORE": 0x55, "JUMP": 0x56,
    "JUMPI": 0x57, "PC": 0x58, "MSIZE": 0x59, "GAS": 0x5A, "JUMPDEST": 0x5B, "TLOAD": 0x5C, "TSTORE": 0x5D,
    "MCOPY": 0x5E, "PUSH0": 0x5F,
    "LOG0": 0xA0, "LOG1": 0xA1, "LOG2": 0xA2, "LOG3": 0xA3, "LOG4": 0xA4,
    "CREATE": 0xF0, "CALL": 0xF1, "CALLCODE": 0xF2, "RETURN": 0xF3, "DELEGATECALL": 0xF4, "CREATE2": 0xF5,
    "STATICCALL": 0xFA, "REVERT": 0xFD, "INVALID": 0xFE, "SELFDESTRUCT": 0xFF,
}
for _i in range(1, 33):
    OPC[f"PUSH{_i}"] = 0x5F + _i
for _i in range(1, 17):
    OPC[f"DUP{_i}"] = 0x7F + _i
    OPC[f"SWAP{_i}"] = 0x8F + _i
NAME = {v: k for k, v in OPC.items()}


def push_bytes(value: int) -> bytes:
    if value == 0:
        return bytes([0x5F])
    n = (value.bit_length() + 7) // 8
    return bytes([0x5F + n]) + value.to_bytes(n, "big")


def assemble(items) -> bytes:
    # pass 1: sizes
    def size_of(it):
        if isinstance(it, str) or isinstance(it, int):
            return 1
        k = it[0]
        if k == "push":
            return len(push_bytes(it[1]))
        if k == "pushn":
            return 1 + it[1]
        if k == "label":
            return 1
        if k in ("ref", "sizeof", "offsetof"):
            return 3
        if k == "raw":
            return len(it[1])
        if k == "data":
            return len(it[2])
        raise ValueError(it)

    labels, datas = {}, {}
    pc = 0
    for it in items:
        if isinstance(it, tuple) and it[0] == "label":
            labels[it[1]] = pc
        if isinstance(it, tuple) and it[0] == "data":
            datas[it[1]] = (pc, len(it[2]))
        pc += size_of(it)
    out = bytearray()
    for it in items:
        if isinstance(it, str):
            out.append(OPC[it])
        elif isinstance(it, int):
            out.append(it)
        else:
            k = it[0]
            if k == "push":
                out += push_bytes(it[1])
            elif k == "pushn":
                out.append(0x5F + it[1])
                out += (it[2] % (1 << (8 * it[1]))).to_bytes(it[1], "big")
            elif k == "label":
                out.append(0x5B)
            elif k == "ref":
                out.append(0x61)
                out += labels[it[1]].to_bytes(2, "big")
            elif k == "sizeof":
                out.append(0x61)
                out += datas[it[1]][1].to_bytes(2, "big")
            elif k == "offsetof":
                out.append(0x61)
                out += datas[it[1]][0].to_bytes(2, "big")
            elif k == "raw":
                out += it[1]
            elif k == "data":
                out += it[2]
    return bytes(out)


def disasm(code: bytes) -> str:
    out, pc = [], 0
    while pc < len(code):
        op = code[pc]
        if 0x60 <= op <= 0x7F:
            n = op - 0x5F
            out.append(f"PUSH{n} 0x{code[pc + 1 : pc + 1 + n].hex()}")
            pc += 1 + n
        else:
            out.append(NAME.get(op, f"0x{op:02x}"))
            pc += 1
    return " ".join(out)


# ---------------------------------------------------------------------------
# expression / statement helpers shared by the program grammars
# ---------------------------------------------------------------------------

BINOPS = ["ADD", "MUL", "SUB", "DIV", "SDIV", "MOD", "SMOD", "EXP", "SIGNEXTEND", "LT", "GT", "SLT", "SGT", "EQ",
          "AND", "OR", "XOR", "BYTE", "SHL", "SHR", "SAR"]
UNOPS = ["ISZERO", "NOT"]
TEROPS = ["ADDMOD", "MULMOD"]


def expr_code(e):
    """expression tree -> items leaving the value on the stack.
    leaves: ("x",) calldata word 0, ("y",) word 1, ("z",) word 2, ("v",) callvalue, ("caller",), ("origin",),
            ("this",), ("k", n); inner: (OP, a[, b[, c]]) with a = first (top-of-stack) operand"""
    k = e[0]
    if k == "x":
        return ["PUSH0", "CALLDATALOAD"]
    if k == "y":
        return [("push", 32), "CALLDATALOAD"]
    if k == "z":
        return [("push", 64), "CALLDATALOAD"]
    if k == "v":
        return ["CALLVALUE"]
    if k == "caller":
        return ["CALLER"]
    if k == "origin":
        return ["ORIGIN"]
    if k == "this":
        return ["ADDRESS"]
    if k == "k":
        return [("push", e[1])]
    if k == "k32":
        return [("pushn", 32, e[1])]
    if k == "sload":
        return expr_code(e[1]) + ["SLOAD"]
    if k == "tload":
        return expr_code(e[1]) + ["TLOAD"]
    if k == "mload":
        return expr_code(e[1]) + ["MLOAD"]
    if k == "balance":
        return expr_code(e[1]) + ["BALANCE"]
    if k == "keccak1":  # keccak256(abi.encode(a)) using scratch memory 0x00
        return expr_code(e[1]) + ["PUSH0", "MSTORE", ("push", 32), "PUSH0", "SHA3"]
    if k == "keccakp":  # keccak256(abi.encodePacked(address(a), uint256(b))): 52 bytes, packed-key mapping
        # operands are evaluated first (they may use the scratch memory themselves)
        return (expr_code(e[2]) + expr_code(e[1]) + [("push", 96), "SHL", "PUSH0", "MSTORE", ("push", 20), "MSTORE", ("push", 52), "PUSH0", "SHA3"])
    if k == "keccak4":  # keccak256(a . b . c . slot): a mapping with a 96-byte key (128-byte preimage)
        return (expr_code(e[4]) + expr_code(e[3]) + expr_code(e[2]) + expr_code(e[1]) +
                ["PUSH0", "MSTORE", ("push", 32), "MSTORE", ("push", 64), "MSTORE", ("push", 96), "MSTORE", ("push", 128), "PUSH0", "SHA3"])
    if k == "keccak2":  # keccak256(abi.encode(a, b))
        return expr_code(e[2]) + expr_code(e[1]) + ["PUSH0", "MSTORE", ("push", 32), "MSTORE", ("push", 64), "PUSH0", "SHA3"]
    # operators: push operands in reverse so that the first operand ends on top
    out = []
    for sub in reversed(e[1:]):
        out += expr_code(sub)
    out.append(k)
    return out


def expr_str(e):
    k = e[0]
    if k in ("x", "y", "z", "v", "caller", "origin", "this"):
        return k
    if k in ("k", "k32"):
        return hex(e[1]) if e[1] > 9 else str(e[1])
    return f"{k}({','.join(expr_str(s) for s in e[1:])})"
