"""Drives the real halmos SEVM on small multi-contract worlds and evaluates the
reported paths for concrete inputs; builds the matching reference world.

World spec (json-able, also the replay format):

  {"accounts": {"<hexaddr>": {"code": "<hex>", "balance": <int> | ["sym", name] | null}},
   "target": <int>, "caller": <int> | ["sym", name], "origin": ..., "value": <int> | ["sym", name],
   "calldata": [["sym", name, nbytes] | ["hex", "…"]],
   "options": {"loop": 2, ...}}

Inputs: {name: int}.  Address-typed symbols are 160 bit, everything else is as
wide as declared (calldata parts) or 256 bit.
"""

from __future__ import annotations

import logging
import re

import z3

from mc import refevm
from mc.symeval import Arr, Program, Unevaluable

# ---------------------------------------------------------------------------
# seams owned by the harness
# ---------------------------------------------------------------------------


class Capture(logging.Handler):
    def __init__(self):
        super().__init__(level=logging.DEBUG)
        self.records = []

    def emit(self, record):
        self.records.append((record.levelname, str(record.msg)))


_capture = None


def install_logging():
    """route halmos logging into a capture list (no terminal output)"""
    global _capture
    if _capture is not None:
        return _capture
    _capture = Capture()
    root = logging.getLogger()
    for h in list(root.handlers):
        root.removeHandler(h)
    for name in ("halmos", "halmos.unique"):
        lg = logging.getLogger(name)
        lg.propagate = False
        for h in list(lg.handlers):
            lg.removeHandler(h)
        lg.addHandler(_capture)
        lg.setLevel(logging.WARNING)
    return _capture


def drain_logs():
    c = install_logging()
    out, c.records = c.records, []
    return out


def reset_unique_filter():
    for f in logging.getLogger("halmos.unique").filters:
        if hasattr(f, "records"):
            f.records.clear()


_uid_counter = [0]
_uid_mode = ["counter"]


def install_uid(mode="counter"):
    """deterministic, injective replacement of halmos.utils.uid()"""
    import halmos.utils as hu

    _uid_mode[0] = mode

    def uid():
        _uid_counter[0] += 1
        n = _uid_counter[0]
        if _uid_mode[0] == "counter":
            return f"{n:07x}"
        if _uid_mode[0] == "rev":
            return f"{(0xFFFFFFF - n):07x}"
        return f"{(n * 0x9E3779B1) & 0xFFFFFFF:07x}"  # odd multiplier mod 2^28: injective

    for modname in ("halmos.utils", "halmos.sevm", "halmos.cheatcodes", "halmos.calldata", "halmos.__main__"):
        import importlib

        try:
            m = importlib.import_module(modname)
        except Exception:
            continue
        if hasattr(m, "uid"):
            m.uid = uid


def reset_uid():
    _uid_counter[0] = 0


class CheckSeam:
    """wraps halmos.sevm.Path.check: records every call; can answer `unknown` at chosen call indices"""

    def __init__(self):
        self.installed = False
        self.calls = 0
        self.force_unknown = set()
        self.force_all = False  # answer `unknown` to every branching query (as a too-short --solver-timeout-branching would)
        self.log = None  # list of (index, real answer, returned answer)
        self.orig = None

    def install(self):
        if self.installed:
            return
        from halmos.sevm import Path

        self.orig = Path.check
        seam = self

        def check(path_self, cond):
            idx = seam.calls
            seam.calls += 1
            if seam.force_all:
                return z3.unknown
            real = seam.orig(path_self, cond)
            ans = z3.unknown if idx in seam.force_unknown else real
            if seam.log is not None:
                seam.log.append((idx, str(real), str(ans)))
            return ans

        Path.check = check
        self.installed = True

    def start(self, force_unknown=(), log=False):
        self.install()
        self.calls = 0
        self.force_unknown = set(force_unknown)
        self.log = [] if log else None


check_seam = CheckSeam()

# ---------------------------------------------------------------------------
# halmos side
# ---------------------------------------------------------------------------

_ARGS_CACHE = {}


def mk_args(**options):
    from halmos.config import ConfigSource, default_config

    key = tuple(sorted(options.items()))
    if key not in _ARGS_CACHE:
        base = dict(solver_timeout_branching=0, no_status=True)
        base.update(options)
        _ARGS_CACHE[key] = default_config().with_overrides(ConfigSource.command_line, **base)
    return _ARGS_CACHE[key]


def sym_or_int(v, width, syms):
    if isinstance(v, (list, tuple)):
        name = v[1]
        t = z3.BitVec(name, width)
        syms[name] = width
        return t
    return z3.BitVecVal(v, width)


class PathResult:
    __slots__ = ("kind", "err", "data", "conds", "logs", "creates", "stuck_reason", "branching")

    def __repr__(self):
        return f"PathResult({self.kind},{self.err},data={str(self.data)[:60]},conds={len(self.conds)})"


def collect_logs(ctx, out, top=True):
    """logs of a call context and of its successful sub-frames, in order"""
    from halmos.sevm import CallContext, EventLog

    for t in ctx.trace:
        if isinstance(t, EventLog):
            out.append(t)
        elif isinstance(t, CallContext):
            if t.output.error is None and t.output.data is not None:
                collect_logs(t, out, False)


def collect_creates(ctx, out):
    from halmos.sevm import CallContext

    for t in ctx.trace:
        if isinstance(t, CallContext):
            if t.message.is_create():
                tgt = t.message.target
                if hasattr(tgt, "as_z3"):
                    tgt = tgt.as_z3()
                if z3.is_bv_value(tgt):
                    tgt = tgt.as_long()
                out.append(("CREATE2" if t.message.call_scheme == 0xF5 else "CREATE", tgt))
            collect_creates(t, out)


def unwrap_bytes(bv):
    """ByteVec -> bytes | z3 term | None"""
    if bv is None:
        return None
    u = bv.unwrap()
    return u


def run_halmos(spec, storage_layout=None):
    """runs the spec symbolically; returns (list[PathResult], syms, info)"""
    from halmos.__main__ import mk_block, mk_solver
    from halmos.bytevec import ByteVec
    from halmos.calldata import FunctionInfo
    from halmos.contract import Contract
    from halmos.exceptions import HalmosException
    from halmos.sevm import EMPTY_BALANCE, SEVM, CallContext, Message, Path
    from halmos.utils import EVM, con_addr

    from halmos.mapper import BuildOut

    if BuildOut()._build_out_map is None:
        BuildOut().set_build_out({})  # as run_contract() does before any execution
    opts = dict(spec.get("options") or {})
    args = mk_args(**opts)
    sevm = SEVM(args, FunctionInfo("C", "f", "f()", "00000000"))
    solver = mk_solver(args)
    syms = {}

    code, storage, tstorage = {}, {}, {}
    for a_hex, acc in spec["accounts"].items():
        a = con_addr(int(a_hex, 16))
        code[a] = Contract.from_hexcode(acc["code"])
        storage[a] = sevm.mk_storagedata()
        tstorage[a] = sevm.mk_storagedata()
        if spec.get("symbolic_storage") is not None:
            storage[a].symbolic = True  # what vm.enableSymbolicStorage(a) does

    parts = []
    for p in spec.get("calldata", []):
        if p[0] == "sym":
            parts.append(z3.BitVec(p[1], 8 * p[2]))
            syms[p[1]] = 8 * p[2]
        else:
            b = bytes.fromhex(p[1])
            if b:
                parts.append(b)
    target = con_addr(spec["target"])
    msg = Message(
        target=target,
        caller=sym_or_int(spec["caller"], 160, syms),
        origin=sym_or_int(spec["origin"], 160, syms),
        value=sym_or_int(spec["value"], 256, syms),
        data=ByteVec(parts),
        call_scheme=EVM.CALL,
    )
    ex = sevm.mk_exec(
        code=code,
        storage=storage,
        transient_storage=tstorage,
        balance=EMPTY_BALANCE,
        block=mk_block(),
        context=CallContext(message=msg),
        pgm=code[target],
        path=Path(solver),
    )
    for a_hex, acc in spec["accounts"].items():
        b = acc.get("balance")
        if b is not None:
            ex.balance_update(con_addr(int(a_hex, 16)), sym_or_int(b, 256, syms))
    for a_hex, b in (spec.get("extra_balances") or {}).items():
        ex.balance_update(con_addr(int(a_hex, 16)), sym_or_int(b, 256, syms))

    results = []
    try:
        for e in sevm.run(ex):
            pr = PathResult()
            o = e.context.output
            pr.conds = list(e.path.conditions.keys())
            pr.branching = [bool(v) for v in e.path.conditions.values()]
            pr.stuck_reason = None
            if e.context.is_stuck():
                pr.kind = "stuck"
                pr.err = type(o.error).__name__ if o.error is not None else "None"
                pr.stuck_reason = str(e.context.get_stuck_reason())
                pr.data = None
            else:
                pr.kind = "ok" if o.error is None else "err"
                pr.err = type(o.error).__name__ if o.error is not None else None
                pr.data = unwrap_bytes(o.data)
            logs = []
            if pr.kind == "ok":
                collect_logs(e.context, logs)
            pr.logs = [(l.address, list(l.topics), unwrap_bytes(l.data) if l.data is not None else b"") for l in logs]
            cr = []
            collect_creates(e.context, cr)
            pr.creates = cr
            results.append(pr)
    finally:
        solver.reset()
    info = {"bounded_loops": len(sevm.logs.bounded_loops), "logs": drain_logs()}
    return results, syms, info


# ---------------------------------------------------------------------------
# evaluating a path for one input
# ---------------------------------------------------------------------------

DEF_NAME = re.compile(r"^(balance_[0-9a-f]+_\d+|storage_.*_[0-9a-f]{7}_\d+|call_exit_code_.*)$")
INV_NAME = re.compile(r"^f_inv_sha3_(size|\d+)$")


def _is_const(t):
    return z3.is_app(t) and t.num_args() == 0 and t.decl().kind() == z3.Z3_OP_UNINTERPRETED


def to_term(v, width=256):
    """halmos value (BV / Bool / int / bytes / z3) -> z3 term"""
    from halmos.bitvec import HalmosBitVec, HalmosBool

    if isinstance(v, HalmosBitVec):
        return v.as_z3()
    if isinstance(v, HalmosBool):
        return z3.If(v.as_z3(), z3.BitVecVal(1, width), z3.BitVecVal(0, width))
    if isinstance(v, bool):
        return z3.BitVecVal(int(v), width)
    if isinstance(v, int):
        return z3.BitVecVal(v, width)
    if isinstance(v, bytes):
        return z3.BitVecVal(int.from_bytes(v, "big"), 8 * len(v)) if v else None
    if z3.is_bool(v):
        return z3.If(v, z3.BitVecVal(1, width), z3.BitVecVal(0, width))
    return v


class PathEval:
    """compiled form of one PathResult"""

    def __init__(self, pr, input_names):
        self.pr = pr
        defs = {}
        plain = []
        inv = []
        for c in pr.conds:
            if z3.is_eq(c):
                l, r = c.arg(0), c.arg(1)
                for a, b in ((l, r), (r, l)):
                    if _is_const(a) and a.decl().name() not in input_names and DEF_NAME.match(a.decl().name()) and a.decl().name() not in defs:
                        defs[a.decl().name()] = b
                        break
                else:
                    got = None
                    for a, b in ((l, r), (r, l)):
                        if z3.is_app(a) and a.num_args() == 1 and INV_NAME.match(a.decl().name()):
                            got = (a.decl().name(), a.arg(0), b)
                            break
                    if got:
                        inv.append(got)
                    else:
                        plain.append(c)
            else:
                plain.append(c)
        self.n_plain = len(plain)
        self.inv_names = [g[0] for g in inv]
        roots = list(plain)
        for _, a, b in inv:
            roots += [a, b]
        # outputs
        self.data_len = None
        self.data_const = None
        if pr.data is None:
            pass
        elif isinstance(pr.data, bytes):
            self.data_const = pr.data
        else:
            self.data_len = pr.data.size() // 8
            roots.append(pr.data)
        self.log_layout = []
        for addr, topics, data in pr.logs:
            ta = to_term(addr, 160)
            tt = [to_term(t) for t in topics]
            lay = {"ntopics": len(tt)}
            roots.append(ta)
            roots += tt
            if isinstance(data, bytes):
                lay["const"] = data
            else:
                lay["len"] = data.size() // 8
                roots.append(data)
            self.log_layout.append(lay)
        self.prog = Program(roots, defs=defs)

    def run(self, env):
        """returns (satisfied, assumption_ok, outcome) ; outcome = (err, data bytes|None, logs)"""
        vals = self.prog.run(env)
        i = 0
        sat = all(vals[: self.n_plain])
        i = self.n_plain
        table = {}
        assumption_ok = True
        for name in self.inv_names:
            a, b = vals[i], vals[i + 1]
            i += 2
            if table.setdefault((name, a), b) != b:
                assumption_ok = False
        if self.pr.data is None:
            data = None
        elif self.data_const is not None:
            data = self.data_const
        else:
            data = vals[i].to_bytes(self.data_len, "big")
            i += 1
        logs = []
        for lay in self.log_layout:
            addr = vals[i]
            i += 1
            topics = tuple(vals[i : i + lay["ntopics"]])
            i += lay["ntopics"]
            if "const" in lay:
                d = lay["const"]
            else:
                d = vals[i].to_bytes(lay["len"], "big")
                i += 1
            logs.append((addr, topics, d))
        return sat, assumption_ok, (self.pr.err, data, logs)


ALT = 0x99  # "adversarial" contents of initial arrays that must read as zero (see mk_env(alt=True))


def default_env(name, descr, init_storage=0, alt=False):
    """free symbols that are not inputs: the all-zero initial arrays (or, under symbolic storage, the chosen initial contents).
    alt=True: every initial array that is *supposed* to be empty holds ALT instead: a path whose constraints still hold under this
    valuation reads such an array without the zero-initialisation axiom"""
    if name.startswith("storage_") and name.endswith("_00"):
        if alt and not init_storage:
            return Arr({}, ALT) if descr[0] == "array" else ALT
        return Arr({}, init_storage) if descr[0] == "array" else init_storage
    if name.endswith("_00") and descr[0] == "array":
        return Arr({}, ALT if alt else 0)
    if name == "balance_00":
        return Arr({}, ALT if alt else 0)
    if name == "f_sha3_0":  # keccak256 of the empty string (a 0-ary symbol in halmos)
        return 0xC5D2460186F7233C927E7DB2DCC703C0E500B653CA82273B7BFAD8045D85A470
    raise Unevaluable(f"free symbol {name} {descr}")


def mk_env(inputs, init_storage=None, alt=False):
    env = dict(inputs)
    if init_storage or alt:
        env["__default__"] = lambda name, descr: default_env(name, descr, init_storage or 0, alt)
    else:
        env["__default__"] = default_env
    return env


# ---------------------------------------------------------------------------
# reference side
# ---------------------------------------------------------------------------


def val_of(v, inputs):
    if isinstance(v, (list, tuple)):
        return inputs[v[1]]
    return v


def run_reference(spec, inputs, creates=None, setup_world=None):
    """returns (outcome, world) with outcome = (errkind|None, data bytes, logs) or ('Unsupported', msg)"""
    w = refevm.World()
    for a_hex, acc in spec["accounts"].items():
        a = int(a_hex, 16)
        w.code[a] = bytes.fromhex(acc["code"])
        w.storage[a] = {}
        w.transient[a] = {}
        w.storage_default = spec.get("symbolic_storage") or 0
        b = acc.get("balance")
        if b is not None:
            w.balance[a] = val_of(b, inputs)
    for a_hex, b in (spec.get("extra_balances") or {}).items():
        w.balance[int(a_hex, 16)] = val_of(b, inputs)
    if creates is not None:
        lst = list(creates)

        def oracle(kind, idx, sender, salt, init):
            if idx >= len(lst):
                raise refevm.Unsupported("more creations than halmos reported")
            return lst[idx][1]

        w.addr_oracle = oracle
    if setup_world is not None:
        setup_world(w)
    if spec.get("cheats"):
        from mc import refcheats

        tape = spec.get("tape")
        refcheats.install(w, tape=[val_of(t, inputs) for t in tape] if tape is not None else None)
        for a_hex, blk in (spec.get("block") or {}).items():
            w.block[a_hex] = blk
    data = b""
    for p in spec.get("calldata", []):
        if p[0] == "sym":
            data += inputs[p[1]].to_bytes(p[2], "big")
        else:
            data += bytes.fromhex(p[1])
    try:
        ok, ret, err = refevm.transact(
            w, spec["target"], val_of(spec["caller"], inputs), val_of(spec["origin"], inputs), val_of(spec["value"], inputs), data
        )
    except refevm.Unsupported as e:
        return ("Unsupported", str(e), []), w
    except refevm.Discard:
        return ("Discard", b"", []), w
    except Exception as e:
        if type(e).__name__ == "TestFailed":
            return ("FailCheatcode", b"", []), w
        if type(e).__name__ == "CheatError":
            return ("CheatError", str(e), []), w
        raise
    logs = [(a, t, d) for (a, t, d) in w.logs] if ok else []
    return (err, ret, logs), w


def input_grid(syms, domain, special=None):
    """all assignments name -> value over `domain` (per-name override in special)"""
    import itertools

    names = sorted(syms)
    doms = []
    for n in names:
        d = (special or {}).get(n, domain)
        w = syms[n]
        doms.append(sorted({v & ((1 << w) - 1) for v in d}))
    for combo in itertools.product(*doms):
        yield dict(zip(names, combo))
