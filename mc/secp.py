"""secp256k1 public-key derivation and Ethereum address of a private key (reference for vm.addr); plain affine arithmetic."""

from __future__ import annotations

import functools

from eth_hash.auto import keccak

P = 2**256 - 2**32 - 977
N = 0xFFFFFFFFFFFFFFFFFFFFFFFFFFFFFFFEBAAEDCE6AF48A03BBFD25E8CD0364141
G = (0x79BE667EF9DCBBAC55A06295CE870B07029BFCDB2DCE28D959F2815B16F81798, 0x483ADA7726A3C4655DA4FBFC0E1108A8FD17B448A68554199C47D08FFB10D4B8)


def _add(a, b):
    if a is None:
        return b
    if b is None:
        return a
    if a[0] == b[0]:
        if (a[1] + b[1]) % P == 0:
            return None
        lam = 3 * a[0] * a[0] * pow(2 * a[1], P - 2, P) % P
    else:
        lam = (b[1] - a[1]) * pow(b[0] - a[0], P - 2, P) % P
    x = (lam * lam - a[0] - b[0]) % P
    return (x, (lam * (a[0] - x) - a[1]) % P)


def pubkey(k):
    acc, base = None, G
    while k:
        if k & 1:
            acc = _add(acc, base)
        base = _add(base, base)
        k >>= 1
    return acc


def valid_key(k):
    return 0 < k < N


@functools.lru_cache(maxsize=4096)
def address_of(k):
    """address of the private key k (0 < k < N)"""
    x, y = pubkey(k)
    return int.from_bytes(keccak(x.to_bytes(32, "big") + y.to_bytes(32, "big"))[12:], "big")


assert address_of(1) == 0x7E5F4552091A69125D5DFCB7B8C2659029395BDF
