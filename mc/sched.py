"""Engine B: stateless, preemption-bounded exploration of real thread code under
a cooperative scheduler (CHESS style), with a simulated subprocess environment.

One OS thread per controlled thread; a baton (per-thread semaphore) makes sure
exactly one runs.  Scheduling points: every operation of the threading shims
(Thread.start/join, Lock, RLock, Event, Condition), of the simulated
Popen/psutil objects, and every source line of the traced files (sys.settrace).
Environment events (a simulated process exits, a communicate() timeout expires)
and environment answers (Popen fails to spawn) are choices of the explorer too.

    sch = Scheduler(choices=[...])      # choices: prefix to replay; afterwards choice 0 everywhere
    sch.run(main_fn)                    # main_fn runs as controlled thread 0
    sch.points                          # list of Point(enabled labels, chosen, cost flags)

explore(make_run, bound) enumerates every schedule with <= bound deviations.
"""

from __future__ import annotations

import subprocess
import sys
import threading as _real_threading
import types

_REAL_THREAD = _real_threading.Thread
_REAL_SEM = _real_threading.Semaphore


class Deadlock(Exception):
    pass


class Horizon(Exception):
    pass


class ReplayDivergence(Exception):
    pass


class _Abort(BaseException):
    """raised inside controlled threads to unwind them when an execution is abandoned"""


class Point:
    __slots__ = ("enabled", "chosen", "running_enabled", "kind", "nthreads")

    def __init__(self, enabled, chosen, running_enabled, kind, nthreads=0):
        self.enabled, self.chosen, self.running_enabled, self.kind, self.nthreads = enabled, chosen, running_enabled, kind, nthreads


class CThread:
    def __init__(self, sch, fn, name):
        self.sch = sch
        self.fn = fn
        self.name = name
        self.tid = len(sch.threads)
        self.go = _REAL_SEM(0)
        self.blocked = None  # None | callable -> bool (enabled when it returns True)
        self.finished = False
        self.exc = None
        self.real = _REAL_THREAD(target=self._boot, daemon=True)
        self.started_real = False

    def _boot(self):
        self.go.acquire()
        try:
            if self.sch.aborting:
                return
            if self.sch.trace_files:
                sys.settrace(self.sch._tracer)
            self.fn()
        except _Abort:
            pass
        except BaseException as e:  # noqa
            self.exc = e
        finally:
            sys.settrace(None)
            self.finished = True
            self.sch.ctl.release()

    def enabled(self):
        if self.finished:
            return False
        return self.blocked is None or bool(self.blocked())


class EnvEvent:
    def __init__(self, label, enabled, fire):
        self.label, self.enabled, self.fire = label, enabled, fire


class Scheduler:
    def __init__(self, choices=(), trace_files=(), horizon=4000, trace_funcs=None):
        self.choices = list(choices)
        self.trace_files = tuple(trace_files)
        self.trace_funcs = set(trace_funcs) if trace_funcs else None
        self.horizon = horizon
        self.threads = []
        self.events = []  # EnvEvent
        self.points = []
        self.ctl = _REAL_SEM(0)
        self.current = None
        self.aborting = False
        self.step = 0
        self.log = []  # harness-level observations (label, step)
        self.uncaught = []

    # ---- used by shims (called in controlled threads) -----------------------------------------

    def me(self):
        return self.current

    def spawn(self, fn, name="t"):
        t = CThread(self, fn, f"{name}{len(self.threads)}")
        self.threads.append(t)
        t.real.start()
        t.started_real = True
        return t

    def point(self, kind="op"):
        """scheduling point: give the scheduler the chance to run somebody else"""
        t = self.current
        if t is None or _real_threading.current_thread() is not t.real:
            return  # not a controlled thread (e.g. the scheduler itself firing an event)
        self._yield(t)

    def block_until(self, pred, kind="block"):
        t = self.current
        if t is None or _real_threading.current_thread() is not t.real:
            if not pred():
                raise RuntimeError("blocking operation outside a controlled thread")
            return
        while not pred():
            t.blocked = pred
            self._yield(t)
        t.blocked = None

    def _yield(self, t):
        self.ctl.release()
        t.go.acquire()
        if self.aborting:
            raise _Abort()

    def choose(self, n, label):
        """environment answer with n alternatives (0 = default); taken by the explorer as a choice point"""
        return self._take([f"{label}:{i}" for i in range(n)], running_enabled=False, kind="env")

    def note(self, label):
        self.log.append((label, self.step))

    # ---- tracer ----------------------------------------------------------------------------------

    def _tracer(self, frame, event, arg):
        if event != "call":
            return None
        fn = frame.f_code.co_filename
        for tf in self.trace_files:
            if fn.endswith(tf):
                if self.trace_funcs is not None and frame.f_code.co_name not in self.trace_funcs:
                    return None
                return self._line_tracer
        return None

    def _line_tracer(self, frame, event, arg):
        if event == "line":
            self.point("line")
        return self._line_tracer

    # ---- explorer side ---------------------------------------------------------------------------

    def _take(self, labels, running_enabled, kind, nthreads=0):
        i = len(self.points)
        if i < len(self.choices):
            c = self.choices[i]
            if c >= len(labels):
                raise ReplayDivergence(f"choice {c} at point {i} but only {labels} enabled")
        else:
            c = 0
        self.points.append(Point(labels, c, running_enabled, kind, nthreads))
        return c

    def run(self, main_fn):
        """runs one complete execution; returns None. raises Deadlock / Horizon / ReplayDivergence"""
        try:
            self.spawn(main_fn, "main")
            while True:
                self.step += 1
                if self.step > self.horizon:
                    raise Horizon(f"more than {self.horizon} steps")
                cands = []
                cur = self.current
                running_enabled = cur is not None and cur.enabled()
                if running_enabled:
                    cands.append(cur)
                for t in self.threads:
                    if t is not cur and t.enabled():
                        cands.append(t)
                evs = [e for e in self.events if e.enabled()]
                if not cands and not evs:
                    if all(t.finished for t in self.threads):
                        return
                    raise Deadlock("no enabled thread or event; blocked: " + ", ".join(t.name for t in self.threads if not t.finished))
                options = cands + evs
                labels = [o.name if isinstance(o, CThread) else o.label for o in options]
                if len(options) == 1:
                    c = 0
                else:
                    c = self._take(labels, running_enabled, "sched", len(cands))
                o = options[c]
                if isinstance(o, CThread):
                    self.current = o
                    o.go.release()
                    self.ctl.acquire()
                    if o.finished and o.exc is not None:
                        self.uncaught.append((o.name, o.exc))
                else:
                    o.fire()
        finally:
            self._abort()

    def _abort(self):
        self.aborting = True
        for t in self.threads:
            if not t.finished:
                t.go.release()
        for t in self.threads:
            if t.started_real:
                t.real.join(timeout=2)

    def deviations_before(self, i):
        """number of deviations (preemptions / non-default environment choices) among points [0, i)"""
        n = 0
        for p in self.points[:i]:
            n += point_cost(p, p.chosen)
        return n


def point_cost(p, choice):
    if choice == 0:
        return 0
    if p.kind == "env":
        return 1  # a non-default environment answer
    if p.running_enabled:
        return 1  # switching away from a thread that could continue: a preemption
    # the running thread is blocked or finished: handing over to any other thread is free, an environment event firing
    # while threads could run is a deviation
    return 0 if choice < p.nthreads else 1


# ---------------------------------------------------------------------------
# threading shims
# ---------------------------------------------------------------------------


def make_threading(sch):
    """a module-like object exposing the subset of `threading` the code under test uses"""

    class Lock:
        def __init__(self):
            self.owner = None

        def acquire(self, blocking=True, timeout=-1):
            sch.point("lock")
            if not blocking:
                if self.owner is None:
                    self.owner = sch.me()
                    return True
                return False
            sch.block_until(lambda: self.owner is None)
            self.owner = sch.me()
            return True

        def release(self):
            self.owner = None

        def locked(self):
            return self.owner is not None

        __enter__ = acquire

        def __exit__(self, *a):
            self.release()

    class RLock:
        def __init__(self):
            self.owner = None
            self.count = 0

        def acquire(self, blocking=True, timeout=-1):
            sch.point("rlock")
            me = sch.me()
            if self.owner is me:
                self.count += 1
                return True
            sch.block_until(lambda: self.owner is None)
            self.owner, self.count = me, 1
            return True

        def release(self):
            self.count -= 1
            if self.count == 0:
                self.owner = None

        __enter__ = acquire

        def __exit__(self, *a):
            self.release()

        # used by Condition
        def _release_save(self):
            st = (self.owner, self.count)
            self.owner, self.count = None, 0
            return st

        def _acquire_restore(self, st):
            sch.block_until(lambda: self.owner is None)
            self.owner, self.count = st

    class Condition:
        def __init__(self, lock=None):
            self.lock = lock if lock is not None else RLock()
            self.waiters = []
            self.acquire = self.lock.acquire
            self.release = self.lock.release

        def __enter__(self):
            return self.lock.__enter__()

        def __exit__(self, *a):
            return self.lock.__exit__(*a)

        def wait(self, timeout=None):
            tok = [False]
            self.waiters.append(tok)
            if hasattr(self.lock, "_release_save"):
                st = self.lock._release_save()
            else:
                self.lock.release()
                st = None
            sch.point("cond-wait")
            sch.block_until(lambda: tok[0])
            if st is not None:
                self.lock._acquire_restore(st)
            else:
                self.lock.acquire()
            return True

        def notify(self, n=1):
            for tok in self.waiters[:n]:
                tok[0] = True
            del self.waiters[:n]

        def notify_all(self):
            self.notify(len(self.waiters))

    class Event:
        def __init__(self):
            self.flag = False

        def is_set(self):
            sch.point("event-is-set")
            return self.flag

        def set(self):
            sch.point("event-set")
            self.flag = True

        def clear(self):
            self.flag = False

        def wait(self, timeout=None):
            sch.point("event-wait")
            if timeout is not None:
                return self.flag
            sch.block_until(lambda: self.flag)
            return True

    class Thread:
        def __init__(self, target=None, args=(), kwargs=None, daemon=None, name=None, group=None):
            self.target, self.args, self.kwargs = target, args, kwargs or {}
            self.daemon = daemon
            self.name = name or "worker"
            self.ct = None

        def start(self):
            sch.point("thread-start")
            self.ct = sch.spawn(lambda: self.target(*self.args, **self.kwargs), "w")

        def join(self, timeout=None):
            sch.point("thread-join")
            sch.block_until(lambda: self.ct.finished)

        def is_alive(self):
            return self.ct is not None and not self.ct.finished

    m = types.SimpleNamespace()
    m.Lock, m.RLock, m.Condition, m.Event, m.Thread = Lock, RLock, Condition, Event, Thread
    m.current_thread = _real_threading.current_thread
    m.main_thread = _real_threading.main_thread
    m.get_ident = _real_threading.get_ident
    return m


def make_futures(sch, thr):
    """stand-in for the `concurrent` package as used by halmos.processes (concurrent.futures.*)"""
    import concurrent.futures as cf

    class CoopPool:
        def __init__(self, max_workers=None, thread_name_prefix=""):
            self.tasks = []
            self._shutdown = False

        def submit(self, fn, *a, **kw):
            if self._shutdown:
                raise RuntimeError("cannot schedule new futures after shutdown")
            fut = cf.Future()

            def body():
                if not fut.set_running_or_notify_cancel():
                    return
                try:
                    r = fn(*a, **kw)
                except BaseException as e:  # noqa
                    if isinstance(e, _Abort):
                        raise
                    fut.set_exception(e)
                else:
                    fut.set_result(r)

            sch.point("pool-submit")
            ct = sch.spawn(body, "p")
            self.tasks.append((fut, ct))
            return fut

        def shutdown(self, wait=True, cancel_futures=False):
            self._shutdown = True
            if wait:
                sch.point("pool-shutdown")
                sch.block_until(lambda: all(ct.finished for _, ct in self.tasks))

        def __enter__(self):
            return self

        def __exit__(self, *a):
            self.shutdown(wait=True)
            return False

    def wait(fs, timeout=None, return_when=None):
        fs = list(fs)
        sch.point("futures-wait")
        sch.block_until(lambda: all(f.done() for f in fs))
        return set(fs), set()

    futures = types.SimpleNamespace(
        Future=cf.Future, Executor=cf.Executor, ThreadPoolExecutor=CoopPool, wait=wait, CancelledError=cf.CancelledError,
        TimeoutError=cf.TimeoutError, InvalidStateError=cf.InvalidStateError, as_completed=cf.as_completed,
    )
    return types.SimpleNamespace(futures=futures), CoopPool


# ---------------------------------------------------------------------------
# simulated processes
# ---------------------------------------------------------------------------


class SimStream:
    def __init__(self):
        self.closed = False

    def close(self):
        self.closed = True


class SimEnv:
    """world of simulated processes; scripts: list of (stdout, stderr, returncode) taken in spawn order"""

    def __init__(self, sch, scripts, allow_spawn_failure=False, allow_term_ignored=True, with_child=False):
        self.allow_term_ignored = allow_term_ignored
        # with_child: every spawned solver process has one child process of its own (a wrapper script's worker) that may exit by
        # itself at any moment; signalling a process that is gone raises NoSuchProcess, as psutil does
        self.with_child = with_child
        self.sch = sch
        self.scripts = list(scripts)
        self.procs = []
        self.allow_spawn_failure = allow_spawn_failure
        self.clock = 0.0

    def time(self):
        self.clock += 0.001
        return self.clock

    # -- Popen ------------------------------------------------------------------------------------
    def Popen(self, cmd, stdout=None, stderr=None, text=None, **kw):
        sch = self.sch
        sch.point("popen")
        if self.allow_spawn_failure and sch.choose(2, "spawn") == 1:
            sch.note(f"spawn-failed:{cmd}")
            raise OSError(2, "No such file or directory (simulated)")
        p = SimProc(self, cmd, self.scripts[len(self.procs)] if len(self.procs) < len(self.scripts) else ("", "", 0))
        self.procs.append(p)
        sch.note(f"spawn:{p.pid}")
        sch.events.append(EnvEvent(f"exit:{p.pid}", lambda: p.state == "running", lambda: p._exit(p.script[2])))
        sch.events.append(EnvEvent(f"timeout:{p.pid}", lambda: p.state == "running" and p.comm_waiting_with_timeout and not p.timeout_fired, p._fire_timeout))
        if self.with_child:
            p.child = SimChild(self, p)
            # (a child that has ignored SIGTERM is a worker that does not end by itself: only kill() ends it)
            sch.events.append(EnvEvent(f"child-exit:{p.pid}", lambda: p.child.state == "running" and not p.child.stubborn, lambda: p.child._exit(0)))
        return p

    # -- psutil -----------------------------------------------------------------------------------
    def psutil(self):
        env = self

        class NoSuchProcess(Exception):
            pass

        class TimeoutExpired(Exception):
            pass

        class Process:
            def __init__(self, pid):
                env.sch.point("psutil-process")
                self.p = env.procs[pid - 1000]
                if self.p.state != "running":
                    raise NoSuchProcess(pid)

            def children(self, recursive=False):
                env.sch.point("psutil-children")
                ch = getattr(self.p, "child", None)
                if ch is not None and ch.state == "running":
                    w = Process.__new__(Process)
                    w.p = ch
                    return [w]
                return []

            def terminate(self):
                env.sch.point("psutil-terminate")
                if self.p.state != "running" and isinstance(self.p, SimChild):
                    raise NoSuchProcess(self.p.pid)  # the child is gone (exited and reaped by its parent)
                if self.p.state == "running":
                    if env.allow_term_ignored and env.sch.choose(2, "sigterm") == 1:
                        # the process ignores / is slow to act on SIGTERM: only kill() ends it (or its own exit later)
                        env.sch.note(f"term-ignored:{self.p.pid}")
                        if isinstance(self.p, SimChild):
                            self.p.stubborn = True
                        return
                    self.p._exit(-15)
                    env.sch.note(f"terminated:{self.p.pid}")

            def kill(self):
                env.sch.point("psutil-kill")
                if self.p.state != "running" and isinstance(self.p, SimChild):
                    raise NoSuchProcess(self.p.pid)
                if self.p.state == "running":
                    self.p._exit(-9)

            def wait(self, timeout=None):
                env.sch.point("psutil-wait")
                if timeout is not None and self.p.state == "running":
                    # nothing in the model makes a process that survived SIGTERM exit within the grace period
                    env.sch.note(f"grace-expired:{self.p.pid}")
                    raise TimeoutExpired(timeout)
                env.sch.block_until(lambda: self.p.state != "running")
                return self.p.returncode

            def is_running(self):
                return self.p.state == "running"

        return types.SimpleNamespace(Process=Process, NoSuchProcess=NoSuchProcess, TimeoutExpired=TimeoutExpired)


class SimChild:
    """a child process of a solver process: no pipes, nobody waits on it; it runs until it exits by itself or is signalled"""

    def __init__(self, env, parent):
        self.env = env
        self.pid = parent.pid + 500
        self.stubborn = False
        self.state = "running"
        self.returncode = None
        self.exit_step = None
        self.spawn_step = env.sch.step

    def _exit(self, rc):
        if self.state == "running":
            self.state = "exited"
            self.returncode = rc
            self.exit_step = self.env.sch.step
            self.env.sch.note(f"child-exit:{self.pid}:{rc}")


class SimProc:
    def __init__(self, env, cmd, script):
        self.env = env
        self.cmd = cmd
        self.args = cmd
        self.script = script
        self.pid = 1000 + len(env.procs)
        self.state = "running"
        self.returncode = None
        self.stdout, self.stderr, self.stdin = SimStream(), SimStream(), None
        self.comm_waiting_with_timeout = False
        self.timeout_fired = False
        self.spawn_step = env.sch.step
        self.exit_step = None

    def _exit(self, rc):
        if self.state == "running":
            self.state = "exited"
            self.returncode = rc
            self.exit_step = self.env.sch.step
            self.env.sch.note(f"exit:{self.pid}:{rc}")

    def _fire_timeout(self):
        self.timeout_fired = True
        self.env.sch.note(f"timeout:{self.pid}")

    def poll(self):
        self.env.sch.point("poll")
        return self.returncode

    def communicate(self, input=None, timeout=None):
        sch = self.env.sch
        sch.point("communicate")
        if self.stdout.closed:
            raise ValueError("I/O operation on closed file (simulated)")
        self.comm_waiting_with_timeout = timeout is not None
        if self.state == "running":
            sch.note(f"comm-block:{self.pid}")
        sch.block_until(lambda: self.state != "running" or self.timeout_fired)
        self.comm_waiting_with_timeout = False
        if self.stdout.closed:
            # cancel() closed the pipes under a communicate() in progress
            raise OSError(9, "Bad file descriptor (simulated)")
        if self.timeout_fired:
            # the deadline has passed: communicate() raises even if the process dies right afterwards
            self.timeout_fired = False
            raise subprocess.TimeoutExpired(self.cmd, timeout)
        if self.returncode is not None and self.returncode < 0:
            return "", ""  # killed: whatever was written so far (nothing)
        return self.script[0], self.script[1]

    def wait(self, timeout=None):
        sch = self.env.sch
        sch.point("wait")
        sch.block_until(lambda: self.state != "running")
        return self.returncode

    def terminate(self):
        self._exit(-15)

    def kill(self):
        self._exit(-9)


# ---------------------------------------------------------------------------
# exploration
# ---------------------------------------------------------------------------


def alternatives(sch, start, bound):
    """prefixes obtained from execution `sch` by changing one choice at a point >= start, within the deviation bound"""
    pts = sch.points
    spent = 0
    spent_at = []
    for p in pts:
        spent_at.append(spent)
        spent += point_cost(p, p.chosen)
    out = []
    for i in range(start, len(pts)):
        p = pts[i]
        for alt in range(1, len(p.enabled)):
            if spent_at[i] + point_cost(p, alt) > bound:
                continue
            out.append([q.chosen for q in pts[:i]] + [alt])
    return out


def explore(run_one, bound, on_execution, budget=None, roots=None):
    """run_one(choices) -> Scheduler after a complete execution (it must build fresh objects every time).
    Enumerates all executions with at most `bound` deviations (iteratively: the caller may call with bound 0,1,2...).
    on_execution(sch, exc) is called for each; returns (#executions, capped)"""
    n = 0
    capped = False
    stack = [list(r) for r in roots] if roots is not None else [[]]
    while stack:
        prefix = stack.pop()
        if budget is not None and n >= budget:
            capped = True
            break
        sch, exc = run_one(prefix)
        n += 1
        on_execution(sch, exc)
        stack.extend(alternatives(sch, len(prefix), bound))
    return n, capped
