#!/venv/bin/python
"""Scripted external "solver" for the properties about how solver replies are
*handled* (C05, C10, C16).  Used through --solver-command:

    solverstub.py <mode> <query.smt2>

modes
  unsat | unknown | empty | garbage      fixed reply
  sat                                    `sat` + a model assigning 0 to every declared p_* / halmos_* bit-vector symbol
  sat-abstract                           `sat` + such a model + an interpretation of f_evm_bvmul_256 (so halmos refines and asks again);
                                         a refined query (name contains `.refined.`) is answered per <mode2> given after a colon: sat-abstract:unsat
  exit1-sat                              prints `sat` + model but exits with status 1
  crash                                  exits with status 139 and no output
  sleep:<seconds>                        sleeps (to be killed by the time limit), then prints unsat
  match:<file>                           <file> is JSON {"consts": [hex strings], "modes": [mode per constant], "default": mode}: the mode of the highest-numbered
                                         constant occurring in the query text is used
  delay:<seconds>:<mode>                 sleeps, then behaves as <mode> (to order the completion of concurrent queries)
  script:<file>                          <file> is JSON {"<path id>": mode, "default": mode}; path id = basename of the query up to the first dot
  core:<file>                            like script, for --cache-solver: JSON {"unsat_sets": [[assertion-id patterns]...]} (see props/c16_cache.py)
"""

import json
import os
import re
import sys
import time

DECL = re.compile(r"\(declare-(?:const|fun)\s+\|?((?:p_|halmos_)[^\s|()]+)\|?\s+(?:\(\)\s+)?\(_ BitVec (\d+)\)\)")


def model(text, abstract=False):
    out = ["sat", "("]
    for name, w in DECL.findall(text):
        out.append(f"  (define-fun {name} () (_ BitVec {w}) (_ bv0 {w}))")
    if abstract:
        out.append("  (define-fun f_evm_bvmul_256 ((x!0 (_ BitVec 256)) (x!1 (_ BitVec 256))) (_ BitVec 256) (_ bv6 256))")
    out.append(")")
    return "\n".join(out) + "\n"


def reply(mode, path, text):
    if mode == "unsat":
        return "unsat\n", 0
    if mode == "unknown":
        return "unknown\n", 0
    if mode == "empty":
        return "", 0
    if mode == "garbage":
        return "(error \"line 1 column 1: something went wrong\")\nsegfault\n", 0
    if mode == "sat":
        return model(text), 0
    if mode.startswith("sat-abstract"):
        second = mode.split(":", 1)[1] if ":" in mode else "sat"
        if ".refined." in os.path.basename(path):
            return reply(second, path, text)
        return model(text, abstract=True), 0
    if mode == "exit1-sat":
        return model(text), 1
    if mode == "crash":
        return "", 139
    if mode.startswith("sleep:"):
        time.sleep(float(mode.split(":", 1)[1]))
        return "unsat\n", 0
    raise SystemExit(f"solverstub: unknown mode {mode}")


def main():
    mode, path = sys.argv[1], sys.argv[-1]
    with open(path) as f:
        text = f.read()
    if mode.startswith("match:"):
        # {"consts": [hex...], "modes": [...]}: the reply is chosen by the highest-numbered constant that occurs in the query
        with open(mode.split(":", 1)[1]) as f:
            table = json.load(f)
        pick = table.get("default", "unsat")
        low = text.lower()
        for cst, m in zip(table["consts"], table["modes"]):
            # z3 prints bit-vector constants as (_ bvN W) or #x...
            if cst.lower() in low or f"(_ bv{int(cst, 16)} " in low:
                pick = m
        mode = pick
    if mode.startswith("delay:"):
        _, secs, mode = mode.split(":", 2)
        time.sleep(float(secs))
    if mode.startswith("script:"):
        with open(mode.split(":", 1)[1]) as f:
            table = json.load(f)
        pid = os.path.basename(path).split(".")[0]
        mode = table.get(pid, table.get("default", "unsat"))
    out, rc = reply(mode, path, text)
    sys.stdout.write(out)
    sys.stdout.flush()
    sys.exit(rc)


if __name__ == "__main__":
    main()
