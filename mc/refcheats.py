"""Reference (Foundry) semantics of the cheatcodes in scope, for mc/refevm.py.

Written from the forge-std / Foundry book descriptions, not from halmos:
selectors are computed here with keccak from the signature grammar.

  vm.assume(bool)                      false -> refevm.Discard (input rejected)
  vm.assert*                           relation false -> TestFailed (global failure)
  vm.store(HEVM, "failed", 1)          DSTest fail() -> TestFailed
  prank / startPrank / stopPrank       per-frame prank state (Frame.prank)
  deal store load etch warp roll fee chainId coinbase difficulty/prevrandao
  svm.create* / vm.random*             next value(s) of an input tape (world.tape)

Anything else -> refevm.Unsupported (the case makes no claim).
"""

from __future__ import annotations

from eth_hash.auto import keccak

from mc import refevm
from mc.refevm import M160, M256, Unsupported

HEVM = 0x7109709ECFA91A80626FF3989D68F67F5B1DD12D
SVM = 0xF3993A62377BCD56AE39D773740A5390411E8BC9
CONSOLE = 0x000000000000000000636F6E736F6C652E6C6F67


class TestFailed(Exception):
    """vm.assert* with a false relation / DSTest fail(): the test fails whatever callers do"""


class CheatError(Exception):
    """the cheatcode itself is an error in Foundry (e.g. prank over an active prank)"""


def sel(sig):
    return int.from_bytes(keccak(sig.encode())[:4], "big")


def sgn(x):
    return x - (1 << 256) if x >> 255 else x


# ---------------------------------------------------------------------------
# ABI reading helpers (independent of halmos)
# ---------------------------------------------------------------------------


def word(data, off):
    chunk = data[off : off + 32]
    return int.from_bytes(chunk + b"\x00" * (32 - len(chunk)), "big")


def dyn_bytes(data, argidx):
    """idx-th argument of type bytes/string (calldata after the selector)"""
    body = data[4:]
    off = word(body, 32 * argidx)
    n = word(body, off)
    return body[off + 32 : off + 32 + n]


def dyn_words(data, argidx):
    body = data[4:]
    off = word(body, 32 * argidx)
    n = word(body, off)
    if n > 1 << 16:
        raise Unsupported("huge array")
    return [word(body, off + 32 + 32 * i) for i in range(n)]


# ---------------------------------------------------------------------------
# assert family
# ---------------------------------------------------------------------------

WORD_TYPES = ["bool", "uint256", "int256", "address", "bytes32"]
BYTES_TYPES = ["string", "bytes"]


def assert_table():
    """selector -> (operator, type, is_array, has_msg)"""
    t = {}
    for op in ("True", "False"):
        for msg in (False, True):
            t[sel(f"assert{op}(bool{',string' if msg else ''})")] = (op, "bool", False, msg)
    for op in ("Eq", "NotEq"):
        for ty in WORD_TYPES + BYTES_TYPES:
            for arr in (False, True):
                for msg in (False, True):
                    a = ty + ("[]" if arr else "")
                    t[sel(f"assert{op}({a},{a}{',string' if msg else ''})")] = (op, ty, arr, msg)
    for op in ("Lt", "Gt", "Le", "Ge"):
        for ty in ("uint256", "int256"):
            for msg in (False, True):
                t[sel(f"assert{op}({ty},{ty}{',string' if msg else ''})")] = (op, ty, False, msg)
    return t


ASSERTS = assert_table()


def assert_holds(selector, data):
    """True iff the relation of the assert cheatcode holds for this calldata"""
    op, ty, arr, msg = ASSERTS[selector]
    if op in ("True", "False"):
        v = word(data, 4)
        return (v != 0) if op == "True" else (v == 0)
    if arr:
        if ty in BYTES_TYPES:
            raise Unsupported("assert on bytes[]/string[]")
        a, b = dyn_words(data, 0), dyn_words(data, 1)
    elif ty in BYTES_TYPES:
        a, b = dyn_bytes(data, 0), dyn_bytes(data, 1)
    else:
        a, b = word(data, 4), word(data, 36)
    if op == "Eq":
        return a == b
    if op == "NotEq":
        return a != b
    if ty == "int256":
        a, b = sgn(a), sgn(b)
    return {"Lt": a < b, "Gt": a > b, "Le": a <= b, "Ge": a >= b}[op]


# ---------------------------------------------------------------------------
# the vm handler
# ---------------------------------------------------------------------------

S = {name: sel(sig) for name, sig in {
    "assume": "assume(bool)",
    "prank1": "prank(address)",
    "prank2": "prank(address,address)",
    "start1": "startPrank(address)",
    "start2": "startPrank(address,address)",
    "stop": "stopPrank()",
    "deal": "deal(address,uint256)",
    "addr": "addr(uint256)",
    "store": "store(address,bytes32,bytes32)",
    "load": "load(address,bytes32)",
    "etch": "etch(address,bytes)",
    "warp": "warp(uint256)",
    "roll": "roll(uint256)",
    "fee": "fee(uint256)",
    "chainId": "chainId(uint256)",
    "coinbase": "coinbase(address)",
    "difficulty": "difficulty(uint256)",
    "prevrandao": "prevrandao(bytes32)",
    "getBlockNumber": "getBlockNumber()",
    "label": "label(address,string)",
    "randomUint": "randomUint()",
    "randomUintBits": "randomUint(uint256)",
    "randomUintRange": "randomUint(uint256,uint256)",
    "randomInt": "randomInt()",
    "randomIntBits": "randomInt(uint256)",
    "randomAddress": "randomAddress()",
    "randomBool": "randomBool()",
    "randomBytes": "randomBytes(uint256)",
    "randomBytes4": "randomBytes4()",
    "randomBytes8": "randomBytes8()",
}.items()}

FAILED_SLOT = int.from_bytes(b"failed".ljust(32, b"\x00"), "big")


def w32(v):
    return (v & M256).to_bytes(32, "big")


def next_tape(world, nbits=256):
    tape = getattr(world, "tape", None)
    if tape is None:
        raise Unsupported("no input tape for a fresh-symbol cheatcode")
    v = tape.next()
    return v


class Tape:
    """explorer-owned stream of values for svm.create*/vm.random*"""

    def __init__(self, values):
        self.values = list(values)
        self.pos = 0
        self.reads = []

    def next(self):
        if self.pos >= len(self.values):
            raise Unsupported("input tape exhausted")
        v = self.values[self.pos]
        self.pos += 1
        return v

    def __copy__(self):
        t = Tape(self.values)
        t.pos = self.pos
        return t


def trunc_uint(v, bits):
    return v & ((1 << bits) - 1) if bits else 0


def sext(v, bits):
    if bits == 0:
        return 0
    v &= (1 << bits) - 1
    if v >> (bits - 1):
        v |= M256 ^ ((1 << bits) - 1)
    return v


def enc_bytes(b):
    pad = (-len(b)) % 32
    return w32(32) + w32(len(b)) + b + b"\x00" * pad


def set_prank(frame, sender, origin, sticky):
    if frame.prank is not None:
        raise CheatError("cannot overwrite a prank")
    frame.prank = {"sender": sender & M160, "origin": None if origin is None else origin & M160, "sticky": sticky}


def vm_handler(world, frame, data):
    if len(data) < 4:
        raise Unsupported("short cheatcode calldata")
    s = int.from_bytes(data[:4], "big")
    if s in ASSERTS:
        if not assert_holds(s, data):
            world.fail_flag = True
            raise TestFailed()
        return True, b""
    if s == S["assume"]:
        if word(data, 4) == 0:
            raise refevm.Discard()
        return True, b""
    if s == S["prank1"]:
        set_prank(frame, word(data, 4), None, False)
        return True, b""
    if s == S["prank2"]:
        set_prank(frame, word(data, 4), word(data, 36), False)
        return True, b""
    if s == S["start1"]:
        set_prank(frame, word(data, 4), None, True)
        return True, b""
    if s == S["start2"]:
        set_prank(frame, word(data, 4), word(data, 36), True)
        return True, b""
    if s == S["stop"]:
        frame.prank = None
        return True, b""
    if s == S["deal"]:
        world.balance[word(data, 4) & M160] = word(data, 36)
        return True, b""
    if s == S["addr"]:
        from mc import secp

        k = word(data, 4)
        if not secp.valid_key(k):
            # Foundry rejects 0 and keys >= the curve order; halmos leaves them unspecified (documented TODO): outside the alphabet
            raise Unsupported("vm.addr of an invalid private key")
        return True, secp.address_of(k).to_bytes(32, "big")
    if s == S["store"]:
        a, k, v = word(data, 4) & M160, word(data, 36), word(data, 68)
        if a == HEVM and k == FAILED_SLOT and v == 1:
            world.fail_flag = True
            raise TestFailed()
        if a not in world.code:
            raise Unsupported("vm.store on a non-existent account")
        world.storage.setdefault(a, {})[k] = v
        return True, b""
    if s == S["load"]:
        a, k = word(data, 4) & M160, word(data, 36)
        return True, w32(world.storage.get(a, {}).get(k, 0))
    if s == S["etch"]:
        a = word(data, 4) & M160
        code = dyn_bytes(data, 1)
        world.code[a] = bytes(code)
        world.storage.setdefault(a, {})
        world.transient.setdefault(a, {})
        return True, b""
    if s == S["warp"]:
        world.block["timestamp"] = word(data, 4)
        return True, b""
    if s == S["roll"]:
        world.block["number"] = word(data, 4)
        return True, b""
    if s == S["fee"]:
        world.block["basefee"] = word(data, 4)
        return True, b""
    if s == S["chainId"]:
        world.block["chainid"] = word(data, 4)
        return True, b""
    if s == S["coinbase"]:
        world.block["coinbase"] = word(data, 4) & M160
        return True, b""
    if s in (S["difficulty"], S["prevrandao"]):
        world.block["difficulty"] = word(data, 4)
        return True, b""
    if s == S["getBlockNumber"]:
        return True, w32(world.block["number"])
    if s == S["label"]:
        return True, b""
    # fresh values
    if s == S["randomUint"]:
        return True, w32(next_tape(world))
    if s == S["randomUintBits"]:
        bits = word(data, 4)
        if bits > 256:
            raise CheatError("bits > 256")
        return True, w32(trunc_uint(next_tape(world), bits))
    if s == S["randomUintRange"]:
        lo, hi = word(data, 4), word(data, 36)
        if lo > hi:
            raise CheatError("min > max")
        v = next_tape(world)
        if not lo <= v <= hi:
            raise refevm.Discard()  # this tape value is not a possible result
        return True, w32(v)
    if s == S["randomInt"]:
        return True, w32(next_tape(world))
    if s == S["randomIntBits"]:
        bits = word(data, 4)
        if bits > 256:
            raise CheatError("bits > 256")
        return True, w32(sext(next_tape(world), bits))
    if s == S["randomAddress"]:
        return True, w32(next_tape(world) & M160)
    if s == S["randomBool"]:
        return True, w32(next_tape(world) & 1)
    if s == S["randomBytes"]:
        n = word(data, 4)
        if n > 4096:
            raise Unsupported("large randomBytes")
        v = next_tape(world)
        return True, enc_bytes(trunc_uint(v, 8 * n).to_bytes(n, "big") if n else b"")
    if s == S["randomBytes4"]:
        return True, (next_tape(world) & 0xFFFFFFFF).to_bytes(4, "big") + b"\x00" * 28
    if s == S["randomBytes8"]:
        return True, (next_tape(world) & (2**64 - 1)).to_bytes(8, "big") + b"\x00" * 24
    raise Unsupported(f"cheatcode {s:#010x}")


SV = {name: sel(sig) for name, sig in {
    "createUint": "createUint(uint256,string)",
    "createUint256": "createUint256(string)",
    "createUint256Range": "createUint256(string,uint256,uint256)",
    "createInt": "createInt(uint256,string)",
    "createInt256": "createInt256(string)",
    "createBytes": "createBytes(uint256,string)",
    "createString": "createString(uint256,string)",
    "createBytes4": "createBytes4(string)",
    "createBytes32": "createBytes32(string)",
    "createAddress": "createAddress(string)",
    "createBool": "createBool(string)",
}.items()}


def svm_handler(world, frame, data):
    s = int.from_bytes(data[:4], "big")
    if s == SV["createUint"]:
        bits = word(data, 4)
        if bits > 256:
            raise CheatError("bits > 256")
        return True, w32(trunc_uint(next_tape(world), bits))
    if s in (SV["createUint256"], SV["createBytes32"], SV["createInt256"]):
        return True, w32(next_tape(world))
    if s == SV["createUint256Range"]:
        lo, hi = word(data, 36), word(data, 68)
        if lo > hi:
            raise CheatError("min > max")
        v = next_tape(world)
        if not lo <= v <= hi:
            raise refevm.Discard()
        return True, w32(v)
    if s == SV["createInt"]:
        bits = word(data, 4)
        if bits > 256:
            raise CheatError("bits > 256")
        return True, w32(sext(next_tape(world), bits))
    if s in (SV["createBytes"], SV["createString"]):
        n = word(data, 4)
        if n > 4096:
            raise Unsupported("large createBytes")
        v = next_tape(world)
        return True, enc_bytes(trunc_uint(v, 8 * n).to_bytes(n, "big") if n else b"")
    if s == SV["createBytes4"]:
        return True, (next_tape(world) & 0xFFFFFFFF).to_bytes(4, "big") + b"\x00" * 28
    if s == SV["createAddress"]:
        return True, w32(next_tape(world) & M160)
    if s == SV["createBool"]:
        return True, w32(next_tape(world) & 1)
    raise Unsupported(f"svm cheatcode {s:#010x}")


def console_handler(world, frame, data):
    return True, b""


def install(world, tape=None):
    world.cheats[HEVM] = vm_handler
    world.cheats[SVM] = svm_handler
    world.cheats[CONSOLE] = console_handler
    world.tape = Tape(tape) if tape is not None and not isinstance(tape, Tape) else tape
    return world
