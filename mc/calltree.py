"""Generated call trees for C09 (and the prank observers of C14).

A tree node is a dict
    {"kind": CALL|STATICCALL|DELEGATECALL|CALLCODE|CREATE|CREATE2 (how the *parent* invokes it; root: "TX"),
     "effects": subset string of "STL" (SSTORE slot0, TSTORE slot0, LOG1) done before the children,
     "value": "0" | "x" | "fwd" | "k1"   (value the parent passes),
     "outcome": "return" | "revert" | "invalid" | "oob" | "stop" | "symfail" (x == 0 ? revert : INVALID) | "symmix" (x == 0 ? return : revert),
     "post": subset string of "ST": SSTORE / TSTORE slot 0 *after* the node recorded its observations,
     "children": [nodes],
     "twin": (created nodes) run the init code of the previous created sibling -- with CREATE2 this is a second creation at the same address;
             outcome "valmix" of a created node = CALLVALUE == 0 ? revert : deploy}
kind "SELFCALL" is a value-bearing CALL of the parent to its own address (2 bytes of calldata make the code stop at once); it has no contract of its own.
Every call forwards the root's calldata word x as 32 bytes of calldata, so callees can branch on it.
Every node is a contract at its own address.  A node's payload (returned or
reverted) is a fixed-layout record of everything it can observe after its
children ran, including each child's success flag, RETURNDATASIZE and returned
payload.  The root finally dumps (STATICCALL) the state of every node.
"""

from __future__ import annotations

from mc import asm

OWN_WORDS = 10  # marker, CALLER, ORIGIN, ADDRESS, CALLVALUE, SLOAD(0), TLOAD(0), SELFBALANCE, CODESIZE, the first calldata word
DUMP_WORDS = 4  # SLOAD(0), TLOAD(0), SELFBALANCE, ADDRESS
ROOT_ADDR = 0xC0
PBASE = 0x400  # payload is assembled here


def number(tree):
    """assign addresses / markers in pre-order"""
    nodes = []

    def walk(n, depth):
        n["id"] = len(nodes)
        n["addr"] = ROOT_ADDR + len(nodes)
        n["marker"] = 0x1100 + len(nodes)
        n["depth"] = depth
        nodes.append(n)
        for c in n["children"]:
            walk(c, depth + 1)

    walk(tree, 0)
    return nodes


def is_self(n):
    return n["kind"] == "SELFCALL"


def payload_words(n):
    if is_self(n):
        return 0
    return OWN_WORDS + sum(2 + payload_words(c) for c in n["children"])


XARG = 0x3C0  # the calldata word x is kept here and passed on to every callee


def is_create(n):
    return n["kind"] in ("CREATE", "CREATE2")


def dump_code():
    """runtime that returns [SLOAD(0), TLOAD(0), SELFBALANCE, ADDRESS]"""
    return [
        "PUSH0", "SLOAD", "PUSH0", "MSTORE",
        "PUSH0", "TLOAD", ("push", 32), "MSTORE",
        "SELFBALANCE", ("push", 64), "MSTORE",
        "ADDRESS", ("push", 96), "MSTORE",
        ("push", 32 * DUMP_WORDS), "PUSH0", "RETURN",
    ]


def value_code(n, parent_is_root):
    v = n["value"]
    if v == "0":
        return ["PUSH0"]
    if v == "k1":
        return [("push", 1)]
    if v == "x":
        return ["PUSH0", "CALLDATALOAD"] if parent_is_root else ["CALLVALUE"]
    if v == "fwd":
        return ["CALLVALUE"]
    raise ValueError(v)


def node_body(n, codes, is_root):
    """items for the behaviour of node n (without the dump dispatcher)"""
    # the first calldata word, fetched with CALLDATACOPY (in a creation frame the calldata is empty: zeros, not the init code)
    items = [("push", 32), "PUSH0", ("push", XARG), "CALLDATACOPY"]
    for e in n["effects"]:
        if e == "S":
            items += [("push", n["marker"]), "PUSH0", "SSTORE"]
        elif e == "T":
            items += [("push", n["marker"] + 0x10000), "PUSH0", "TSTORE"]
        elif e == "L":
            items += [("push", n["marker"]), "PUSH0", "PUSH0", "LOG1"]
    # children
    off = PBASE + 32 * OWN_WORDS
    for c in n["children"]:
        w = payload_words(c)
        flag_off, rds_off, win_off = off, off + 32, off + 64
        if is_self(c):
            items += ["PUSH0", "PUSH0", ("push", 2), "PUSH0"] + value_code(c, is_root) + ["ADDRESS", ("push", 0xFFFF), "CALL"]
            items += [("push", flag_off), "MSTORE"]
            items += ["RETURNDATASIZE", ("push", rds_off), "MSTORE"]
        elif is_create(c):
            src = init_owner(n, c)
            # copy init code to scratch memory at 0x2000 from this contract's code (appended as data)
            items += [("sizeof", f"init{src['id']}"), ("offsetof", f"init{src['id']}"), ("push", 0x2000), "CODECOPY"]
            if c["kind"] == "CREATE2":
                items += [("push", 0x5A17)]
            items += [("sizeof", f"init{src['id']}"), ("push", 0x2000)] + value_code(c, is_root) + [c["kind"]]
            items += [("push", flag_off), "MSTORE"]
            items += ["RETURNDATASIZE", ("push", rds_off), "MSTORE"]
            # copy revert data (if any) into the window: size = min(rds, window) is not expressible without a
            # branch, so copy exactly RETURNDATASIZE bytes when it fits the window statically (payloads do)
            items += ["RETURNDATASIZE", "PUSH0", ("push", win_off), "RETURNDATACOPY"]
        else:
            if c["outcome"] in ("short", "shortrev"):
                # the callee hands back fewer bytes than the window: the rest of the window keeps what the caller had there
                for k in range(w):
                    items += [("pushn", 32, int.from_bytes(bytes([0xB0 + (k % 16)]) * 32, "big")), ("push", win_off + 32 * k), "MSTORE"]
            items += [("push", 32 * w), ("push", win_off), ("push", 32), ("push", XARG)]
            if c["kind"] in ("CALL", "CALLCODE"):
                items += value_code(c, is_root)
            items += [("push", c["addr"]), "GAS" if False else ("push", 0xFFFF), c["kind"]]
            items += [("push", flag_off), "MSTORE"]
            if n["depth"] % 2 == 1:
                items += ["PUSH0", "SLOAD", "POP", "PUSH0", "TLOAD", "POP"]  # the return-data buffer survives storage reads of the caller
            items += ["RETURNDATASIZE", ("push", rds_off), "MSTORE"]
        off += 32 * (2 + w)
    # own observations (after children)
    own = [("push", n["marker"]), "CALLER", "ORIGIN", "ADDRESS", "CALLVALUE", ["PUSH0", "SLOAD"], ["PUSH0", "TLOAD"], "SELFBALANCE", "CODESIZE", [("push", XARG), "MLOAD"]]
    for i, o in enumerate(own):
        items += (o if isinstance(o, list) else [o]) + [("push", PBASE + 32 * i), "MSTORE"]
    for e in n.get("post", ""):
        if e == "S":
            items += [("push", n["marker"] + 0x20000), "PUSH0", "SSTORE"]
        elif e == "T":
            items += [("push", n["marker"] + 0x30000), "PUSH0", "TSTORE"]
    return items


def init_owner(parent, c):
    """the sibling whose init code a created child runs: itself, or (c["twin"]) the previous created sibling --
    same init code and, for CREATE2, same salt, hence the same address"""
    if not c.get("twin"):
        return c
    sibs = parent["children"]
    i = next(k for k, s in enumerate(sibs) if s is c)
    return init_owner(parent, sibs[i - 1])


def outcome_code(n, size_words, extra=None):
    o = n["outcome"]
    if o == "return":
        return [("push", 32 * size_words), ("push", PBASE), "RETURN"]
    if o == "revert":
        return [("push", 32 * size_words), ("push", PBASE), "REVERT"]
    if o == "short":  # only the first 36 bytes of the payload
        return [("push", 36), ("push", PBASE), "RETURN"]
    if o == "shortrev":  # revert with the first 4 bytes of the payload
        return [("push", 4), ("push", PBASE), "REVERT"]
    if o == "invalid":
        return ["INVALID"]
    if o == "stop":
        return ["STOP"]
    if o == "oob":
        return [("push", 0xFFFF), "PUSH0", "PUSH0", "RETURNDATACOPY", "STOP"]
    if o == "symfail":  # x == 0 ? revert(payload) : INVALID   -- two failing paths
        return ["PUSH0", "CALLDATALOAD", ("ref", "sf_inv"), "JUMPI", ("push", 32 * size_words), ("push", PBASE), "REVERT", ("label", "sf_inv"), "INVALID"]
    if o == "symmix":  # x == 0 ? return(payload) : revert(payload)
        return ["PUSH0", "CALLDATALOAD", ("ref", "sm_rev"), "JUMPI", ("push", 32 * size_words), ("push", PBASE), "RETURN", ("label", "sm_rev"), ("push", 32 * size_words), ("push", PBASE), "REVERT"]
    raise ValueError(o)


def build(tree):
    """returns (accounts: {addr: code bytes}, nodes, root payload words incl. dumps)"""
    nodes = number(tree)
    codes = {}
    # children first (init code of created children is embedded in the parent)
    for n in reversed(nodes):
        if is_self(n):
            continue
        is_root = n["id"] == 0
        body = node_body(n, codes, is_root)
        pw = payload_words(n)
        datas = []
        for c in n["children"]:
            if is_create(c) and not c.get("twin"):
                datas.append(("data", f"init{c['id']}", codes[c["id"]]["init"]))
        if is_create(n) and n.get("twin"):
            continue  # runs the previous sibling's init code
        if is_create(n):
            # init code: behaviour, then (outcome return) deploy the dump runtime
            runtime = asm.assemble(dump_code())
            deploy = [("sizeof", "rt"), ("offsetof", "rt"), "PUSH0", "CODECOPY", ("sizeof", "rt"), "PUSH0", "RETURN"]
            if n["outcome"] == "return":
                tail = deploy
            elif n["outcome"] == "valmix":  # CALLVALUE == 0 ? revert(payload) : deploy
                tail = ["CALLVALUE", ("ref", "vm_dep"), "JUMPI", ("push", 32 * pw), ("push", PBASE), "REVERT", ("label", "vm_dep")] + deploy
            else:
                tail = outcome_code(n, pw)
            init = asm.assemble(body + tail + datas + [("data", "rt", runtime)])
            codes[n["id"]] = {"init": init}
            continue
        if is_root:
            # dumps of every non-created node and of every created address found in the payload
            dumps = []
            off = PBASE + 32 * pw
            dumps += [("push", 1), "PUSH0", "MSTORE8"]  # 1 byte of calldata = dump request
            dump_targets = []
            for m in nodes[1:]:
                if not is_create(m) and not is_self(m):
                    dump_targets.append(("addr", m["addr"]))
            # created children: their flag word (address) sits at a static payload offset
            for m, flag_off in created_flag_offsets(tree):
                dump_targets.append(("mem", flag_off))
            for kind, v in dump_targets:
                tgt = [("push", v)] if kind == "addr" else [("push", v), "MLOAD"]
                dumps += [("push", 32 * DUMP_WORDS), ("push", off), ("push", 1), "PUSH0"] + tgt + [("push", 0xFFFF), "STATICCALL", "POP"]
                off += 32 * DUMP_WORDS
                if kind == "mem":
                    dumps += tgt + ["EXTCODESIZE", ("push", off), "MSTORE"] + tgt + ["EXTCODEHASH", ("push", off + 32), "MSTORE"]
                    off += 64
            total_words = (off - PBASE) // 32
            selfstop = [("push", 2), "CALLDATASIZE", "EQ", "ISZERO", ("ref", "go"), "JUMPI", "STOP", ("label", "go")]
            code = asm.assemble(selfstop + body + dumps + outcome_code(n, total_words) + datas)
            codes[n["id"]] = {"code": code, "words": total_words}
        else:
            lab = "behave"
            selfstop = [("push", 2), "CALLDATASIZE", "EQ", "ISZERO", ("ref", "go"), "JUMPI", "STOP", ("label", "go")]
            code = asm.assemble(selfstop + [("push", 1), "CALLDATASIZE", "EQ", "ISZERO", ("ref", lab), "JUMPI"] + dump_code() + [("label", lab)] + body + outcome_code(n, pw) + datas)
            codes[n["id"]] = {"code": code}
    accounts = {n["addr"]: codes[n["id"]]["code"] for n in nodes if not is_create(n) and not is_self(n)}
    return accounts, nodes, codes[0]["words"]


def created_flag_offsets(tree):
    """(node, absolute memory offset in the ROOT's payload of the flag word of each created node)"""
    out = []

    def walk(n, base):
        off = base + 32 * OWN_WORDS
        for c in n["children"]:
            if is_create(c):
                out.append((c, off))
            if not is_self(c):
                walk(c, off + 64)
            off += 32 * (2 + payload_words(c))

    walk(tree, PBASE)
    return out


def tree_str(n):
    s = f"{n['kind']}{'=' if n.get('twin') else ''}[{n['effects'] or '-'},{n['value']},{n['outcome']}{',post=' + n['post'] if n.get('post') else ''}]"
    if n["children"]:
        s += "(" + ",".join(tree_str(c) for c in n["children"]) + ")"
    return s


def mk(kind, effects="", value="0", outcome="return", children=(), post="", twin=False):
    n = {"kind": kind, "effects": effects, "value": value, "outcome": outcome, "children": list(children), "post": post}
    if twin:
        n["twin"] = True
    return n
