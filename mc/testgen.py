"""Grammar of "guarded failure" test contracts for the end-to-end properties
(C03, C04, C11, C16, C20): setUp() stores a constant, check functions are
`if (g1) [if (g2)] fail_k` over guards from a relation alphabet.

A test is a json-able dict
   {"sig": "uint256,uint256" | "bytes" | "uint256[]" | "uint256,bytes",
    "shape": "single" | "nested" | "seq",
    "guards": [g1(, g2)], "fails": [k1(, k2)]}
guards are names in GUARDS_* below.
"""

from __future__ import annotations

import itertools

from mc import e2e
from mc.asm import expr_code  # noqa: F401  (re-exported for callers)

S_VALUE = 7  # storage variable set by setUp()

X = e2e.arg(0)
Y = e2e.arg(1)
S = ["PUSH0", "SLOAD"]


def k(v):
    return [("push", v)]


def binop(op, a, b):
    """EVM `op(a, b)` with a = first (top-of-stack) operand"""
    return list(b) + list(a) + [op]


def eq(a, b):
    return binop("EQ", a, b)


def keccak_word(a):
    return list(a) + ["PUSH0", "MSTORE", ("push", 32), "PUSH0", "SHA3"]


M1 = 2**256 - 1

# static-argument guards over x = arg0, y = arg1, s = storage slot 0 (= 7 after setUp)
GUARDS_STATIC = {
    "x==42": eq(X, k(42)),
    "x!=y": eq(X, Y) + ["ISZERO"],
    "x<3": binop("LT", X, k(3)),
    "x<s0": binop("SLT", X, k(0)),
    "x>y": binop("GT", X, Y),
    "x+y==1": eq(binop("ADD", X, Y), k(1)),
    "x*y==6": eq(binop("MUL", X, Y), k(6)),
    "x/y==3": eq(binop("DIV", X, Y), k(3)),
    "x%y==2": eq(binop("MOD", X, Y), k(2)),
    "x**2==9": eq(binop("EXP", X, k(2)), k(9)),
    "x sdiv y==-2": eq(binop("SDIV", X, Y), k(M1 - 1)),
    "keccak(x)==keccak(5)": eq(keccak_word(X), keccak_word(k(5))),
    "x==s": eq(X, S),
    "x&0xff==0x2a": eq(binop("AND", X, k(0xFF)), k(0x2A)),
    "y==5": eq(Y, k(5)),
    "x*y==s": eq(binop("MUL", X, Y), S),
    # division / remainder by zero is zero in the EVM: reachable only with y == 0 and a non-zero dividend
    "y==0&&x==7": binop("AND", eq(Y, k(0)), eq(X, k(7))),
    "x/y==0": eq(binop("DIV", X, Y), k(0)),
    "x%y==0": eq(binop("MOD", X, Y), k(0)),
    "x sdiv y==0": eq(binop("SDIV", X, Y), k(0)),
    "x smod y==0": eq(binop("SMOD", X, Y), k(0)),
    "y==0": eq(Y, k(0)),
    "x**y==8": eq(binop("EXP", X, Y), k(8)),  # symbolic exponent: the exp abstraction is never refined
    "x/y==s": eq(binop("DIV", X, Y), S),
    "x%y==s": eq(binop("MOD", X, Y), S),
    "x sdiv y==s": eq(binop("SDIV", X, Y), S),
    "x smod y==s": eq(binop("SMOD", X, Y), S),
}
EXP_PAIRS = [("x*y==6", "x**y==8"), ("x/y==3", "x**y==8"), ("x**y==8", "x%y==2"), ("x==s", "x**y==8")]
DIV0_PAIRS = [("y==0&&x==7", g) for g in ("x/y==0", "x%y==0", "x sdiv y==0", "x smod y==0")]
STATIC_QUICK = ["x==42", "x!=y", "x<3", "x<s0", "x+y==1", "x*y==6", "x/y==3", "x%y==2", "x**2==9", "keccak(x)==keccak(5)", "x==s", "y==5"]
REFINE_GUARDS = ["x*y==6", "x/y==3", "x%y==2", "x sdiv y==-2", "x*y==s", "x**2==9"]

# dynamic parameter at argument position p: offset word at 4+32p (relative to byte 4), then length, then data
def dyn_len(p=0):
    return [("push", 4 + 32 * p), "CALLDATALOAD", ("push", 4), "ADD", "CALLDATALOAD"]


def dyn_word(p, j):
    """j-th 32-byte word of the data area of the dynamic parameter at position p"""
    return [("push", 4 + 32 * p), "CALLDATALOAD", ("push", 4 + 32 + 32 * j), "ADD", "CALLDATALOAD"]


def and_(a, b):
    return binop("AND", a, b)


def bytes_guards(p):
    ln = dyn_len(p)
    first = binop("BYTE", k(0), dyn_word(p, 0))
    return {
        "len==0": binop("ISZERO", ln, [])[:-1] + ["ISZERO"] if False else list(ln) + ["ISZERO"],
        "len==65": eq(ln, k(65)),
        "len==3": eq(ln, k(3)),
        "len>0&&b[0]==0x41": and_(binop("GT", ln, k(0)), eq(first, k(0x41))),
        "len==65&&b[0]==0x41": and_(eq(ln, k(65)), eq(first, k(0x41))),
        "len==1024": eq(ln, k(1024)),
    }


def array_guards(p):
    ln = dyn_len(p)
    return {
        "len==0": list(ln) + ["ISZERO"],
        "len==2": eq(ln, k(2)),
        "len==3": eq(ln, k(3)),
        "len>1&&a[1]==7": and_(binop("GT", ln, k(1)), eq(dyn_word(p, 1), k(7))),
        "len>0&&a[0]==s": and_(binop("GT", ln, k(0)), eq(dyn_word(p, 0), S)),
        "len==2&&a[0]+a[1]==1": and_(eq(ln, k(2)), eq(binop("ADD", dyn_word(p, 0), dyn_word(p, 1)), k(1))),
    }


FAILS = {
    "panic1": e2e.panic(1),
    "panic11": e2e.panic(0x11),
    "assert": e2e.vm("assertTrue(bool)", ["PUSH0"]) + ["STOP"],
    "assertEq": e2e.vm("assertEq(uint256,uint256)", [("push", 1)], [("push", 2)]) + ["STOP"],
    "dsfail": e2e.ds_fail() + ["STOP"],
    "revert": e2e.revert0(),
    "invalid": ["INVALID"],
    # revert Panic(x): the panic code is the (symbolic) first argument
    "panicx": [("pushn", 4, e2e.PANIC_SEL), ("push", 224), "SHL", "PUSH0", "MSTORE"] + X + [("push", 4), "MSTORE", ("push", 36), "PUSH0", "REVERT"],
}
FAIL_KINDS = ["panic1", "panic11", "assert", "dsfail", "revert", "invalid"]


def guards_for(sig):
    if sig == "uint256,uint256":
        return GUARDS_STATIC
    if sig == "uint256":
        return {n: g for n, g in GUARDS_STATIC.items() if "y" not in n.replace("keccak", "")}
    if sig == "bytes":
        return bytes_guards(0)
    if sig == "uint256[]":
        return array_guards(0)
    if sig == "uint256,bytes":
        d = {n: g for n, g in GUARDS_STATIC.items() if "y" not in n.replace("keccak", "")}
        d.update({"b:" + n: g for n, g in bytes_guards(1).items()})
        return d
    if sig == "uint256,uint256[]":
        d = {n: g for n, g in GUARDS_STATIC.items() if "y" not in n.replace("keccak", "")}
        d.update({"a:" + n: g for n, g in array_guards(1).items()})
        return d
    raise ValueError(sig)


def body_of(test):
    G = guards_for(test["sig"])
    gs = [G[g] for g in test["guards"]]
    fs = [FAILS[f] for f in test["fails"]]
    sh = test["shape"]
    if sh == "single":
        return e2e.if_then(gs[0], fs[0], "a") + ["STOP"]
    if sh == "nested":
        return e2e.if_then(gs[0], e2e.if_then(gs[1], fs[0], "b"), "a") + ["STOP"]
    if sh == "seq":
        return e2e.if_then(gs[0], fs[0], "a") + e2e.if_then(gs[1], fs[1], "b") + ["STOP"]
    raise ValueError(sh)


def test_name(i):
    return f"check_t{i}"


def mk_contract(tests, name="T", setup=True, natspec=None, devdoc=None):
    funcs = {}
    if setup:
        funcs["setUp()"] = [("push", S_VALUE), "PUSH0", "SSTORE", "STOP"]
    for i, t in enumerate(tests):
        funcs[f"{test_name(i)}({t['sig']})"] = body_of(t)
    return e2e.Contract(name, funcs, natspec=natspec, devdoc=devdoc)


def test_str(t):
    g, f = t["guards"], t["fails"]
    if t["shape"] == "single":
        return f"({t['sig']}) if({g[0]}) {f[0]}"
    if t["shape"] == "nested":
        return f"({t['sig']}) if({g[0]}) if({g[1]}) {f[0]}"
    return f"({t['sig']}) if({g[0]}) {f[0]}; if({g[1]}) {f[1]}"


# ---------------------------------------------------------------------------
# concrete arguments: domains and ABI encoding (reference side)
# ---------------------------------------------------------------------------

D_STATIC = [0, 1, 2, 3, 5, 6, 7, 9, 42, 2**255, 2**256 - 2, 2**256 - 1]


def w32(v):
    return (v % 2**256).to_bytes(32, "big")


def enc_args(sig, vals):
    """canonical ABI encoding of the argument tuple; vals per parameter: int | bytes | list[int]"""
    types = sig.split(",") if sig else []
    head, tail = b"", b""
    hs = 32 * len(types)
    for t, v in zip(types, vals):
        if t in ("bytes", "string"):
            head += w32(hs + len(tail))
            tail += w32(len(v)) + v + b"\x00" * ((-len(v)) % 32)
        elif t.endswith("[]"):
            head += w32(hs + len(tail))
            tail += w32(len(v)) + b"".join(w32(e) for e in v)
        else:
            head += w32(v)
    return head + tail


def bytes_domain(lengths):
    out = []
    for n in lengths:
        if n == 0:
            out.append(b"")
        else:
            out.append(b"\x41" + b"\x00" * (n - 1))
            out.append(b"\x00" * n)
            out.append(b"\x42" * n)
    return out


def array_domain(lengths, elems=(0, 1, 7, 2**256 - 1)):
    out = []
    for n in lengths:
        if n > 3:
            out.append([7] * n)
            continue
        for combo in itertools.product(elems, repeat=n):
            out.append(list(combo))
    return out


def arg_grid(sig, bounds):
    """all argument tuples of the brute-force domain; bounds: {param name: [lengths]} for dynamic params"""
    types = sig.split(",")
    doms = []
    for i, t in enumerate(types):
        if t == "bytes":
            doms.append(bytes_domain(bounds.get(f"a{i}", [0, 65, 1024])))
        elif t == "uint256[]":
            doms.append(array_domain(bounds.get(f"a{i}", [0, 1, 2])))
        else:
            doms.append(D_STATIC)
    return itertools.product(*doms)
