#!/usr/bin/env python3
"""usage: tools/seedwave.py <wave-number> [ids...]
creates a scratch worktree /tmp/seed<w>_<Cxx> of /repo and a prompt file /tmp/seed<w>_prompt_<Cxx>.txt (from tools/seed_prompt.txt,
the property text and the sites used by earlier waves) for every property; the prompts are handed to fresh sub-agents."""
import json, os, subprocess, sys
w = sys.argv[1]
ids = sys.argv[2:]
props = {}
for l in open("/verif/properties.jsonl"):
    p = json.loads(l)
    props[p["id"]] = p
used = json.load(open("/verif/tools/seed_sites_used.json"))
tmpl = open("/verif/tools/seed_prompt.txt").read()
for pid, p in props.items():
    if ids and pid not in ids:
        continue
    wt = f"/tmp/seed{w}_{pid}"
    subprocess.run(["git", "-C", "/repo", "worktree", "remove", "--force", wt], capture_output=True)
    subprocess.run(["git", "-C", "/repo", "worktree", "add", "-q", "--detach", wt, "HEAD"], check=True)
    text = f"{pid}: {p['title']}\n\n{p['statement']}\n\nQuantified over: {p['quantifier']['text']}\n\nAnchored in: {', '.join(p['anchors']['files'])}"
    s = tmpl.replace("@@PROP@@", text).replace("@@WT@@", wt)
    extra = "\n\nALREADY USED (earlier seeded defects for this property changed these sites; choose DIFFERENT functions/mechanisms. Prefer defects that need a multi-step history, an unusual boundary input, a particular interleaving/fault point, or two cooperating sites that each look fine alone):\n"
    extra += "".join(f"  - {u}\n" for u in used.get(pid, []))
    extra += "\nNOTE: never use `git stash` (the stash is shared by every worktree of this repository and other people are working in sibling worktrees); use `git diff > file`, `git checkout -- src` and `git apply file` only.\n"
    s = s.replace("\nDELIVERABLES", extra + "\nDELIVERABLES", 1)
    open(f"/tmp/seed{w}_prompt_{pid}.txt", "w").write(s)
    print(pid, wt)
