#!/bin/bash
# usage: tools/seedcheck.sh <Cxx> <k> <check ids...>
#  verifies the sub-agent's seeded defect /tmp/seed_<Cxx>/OUT/mut<k>.diff in a fresh scratch worktree:
#  baseline tests, demo with/without, then runs the given checks against it (VERIF_REPO).
set -u
p=$1; k=$2; shift 2
src=${SEED_SRC:-/tmp/seed_$p/OUT}
[ -d /verif/seeded/$p-$k ] && [ ! -d $src ] && src=/verif/seeded/$p-$k
diff=$src/mut$k.diff; [ -f $diff ] || diff=$src/patch.diff
demo=$src/demo$k.py; [ -f $demo ] || demo=$(ls $src/demo*.py | head -1)
wt=/tmp/chk_${p}_$k
git -C /repo worktree remove --force $wt 2>/dev/null
git -C /repo worktree add -q --detach $wt HEAD || exit 2
echo "== demo on clean tree:"; (cd $wt && PYTHONPATH=$wt/src timeout 300 /venv/bin/python $demo 2>&1 | grep -v conda | tail -2; echo "exit=${PIPESTATUS[0]}")
git -C $wt apply $diff || { echo "patch does not apply"; git -C /repo worktree remove --force $wt; exit 2; }
git -C $wt diff --stat | tail -1
echo "== baseline with patch:"; (cd $wt && PYTHONPATH=$wt/src /venv/bin/python -m pytest -q -p no:cacheprovider --timeout=900 --continue-on-collection-errors 2>&1 | tail -1)
echo "== demo with patch:"; (cd $wt && PYTHONPATH=$wt/src timeout 300 /venv/bin/python $demo 2>&1 | grep -v conda | tail -2; echo "exit=${PIPESTATUS[0]}")
for c in "$@"; do
  echo "== check $c (${MUT_TIER:-quick}):"
  VERIF_REPO=$wt /verif/check $c --tier ${MUT_TIER:-quick} --no-evidence 2>&1 | grep -v conda | grep -E "VIOLATION|^C[0-9]+ |harness|KNOWN|Error" | cut -c1-300 | head -5
done
git -C /repo worktree remove --force $wt
