import os,sys,json,time
os.environ['PYTHONHASHSEED']='0'
sys.path.insert(0,'/verif')
from mc import core; core.setup_env()
import importlib
mod=importlib.import_module(sys.argv[1])
shard=json.loads(sys.argv[2])
t=time.time()
r=mod.run_shard(shard)
print(r['counts'], 'states',len(r['states']),'outcomes',len(r['outcomes']), 'wall',round(time.time()-t,2))
for v in r['violations'][:int(sys.argv[3]) if len(sys.argv)>3 else 5]:
    print(' V', v['key'], '|', v['what'][:300])
