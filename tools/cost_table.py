#!/usr/bin/env python3
"""prints the §10 cost table from evidence/*.json (quick) and evidence/thorough/*.json"""
import json, os
V = os.path.dirname(os.path.dirname(os.path.abspath(__file__)))
print("| Prop | quick | thorough |\n|------|-------|----------|")
for i in range(1, 21):
    p = f"C{i:02d}"
    cells = []
    for f in (f"{V}/evidence/{p}.json", f"{V}/evidence/thorough/{p}.json"):
        try:
            d = json.load(open(f))
            c = d["coverage"]
            n, unit = (c["states"], "states") if "states" in c else (c.get("evaluations", 0), "evaluations")
            cells.append(f"{d['wall_s']:.0f} s ({n:,} {unit}){'' if d['tier'] == ('quick' if 'thorough/' not in f else 'thorough') else ' [' + d['tier'] + ']'}")
        except Exception as e:
            cells.append("-")
    print(f"| {p} | {cells[0]} | {cells[1]} |")
