#!/bin/bash
# usage: tools/reverify.sh [seed ids...]     (default: every directory under seeded/)
#  re-runs, for every kept seed, the checks listed in its meta.json "detected_by" against a scratch worktree with the patch applied.
#  prints one line per seed: "<id> <check>=<number of VIOLATION lines> ..." and "MISSED"/"NOAPPLY" markers.
cd /verif
ids=${@:-$(ls seeded)}
for id in $ids; do
  d=seeded/$id
  [ -f $d/patch.diff ] || continue
  wt=/tmp/rv_$id
  git -C /repo worktree remove --force $wt 2>/dev/null
  git -C /repo worktree add -q --detach $wt HEAD || { echo "$id WORKTREE-ERROR"; continue; }
  if ! git -C $wt apply /verif/$d/patch.diff 2>/dev/null; then
    echo "$id NOAPPLY"; git -C /repo worktree remove --force $wt; continue
  fi
  checks=$(/venv/bin/python -c "import json,sys; print(' '.join(json.load(open('$d/meta.json'))['detected_by']))" 2>/dev/null | grep -v conda)
  line="$id"; hit=0
  for c in $checks; do
    n=$(VERIF_REPO=$wt timeout 1500 ./check $c --tier ${MUT_TIER:-quick} --no-evidence 2>&1 | grep -c "^VIOLATION")
    line="$line $c=$n"
    [ "$n" -gt 0 ] && hit=1 && break
  done
  [ $hit = 1 ] || line="$line MISSED"
  echo "$line"
  git -C /repo worktree remove --force $wt
done
