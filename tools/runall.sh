#!/bin/bash
# usage: tools/runall.sh [quick|thorough] [ids...]   runs the checks one after the other, prints one line per check
tier=${1:-quick}; shift
ids=${@:-C01 C02 C03 C04 C05 C06 C07 C08 C09 C10 C11 C12 C13 C14 C15 C16 C17 C18 C19 C20}
cd /verif
for c in $ids; do
  s=$(date +%s)
  out=$(./check $c --tier $tier 2>&1 | grep -v conda)
  rc=$?
  e=$(date +%s)
  echo "$c rc=$(echo "$out" | grep -c VIOLATION)viol known=$(echo "$out" | grep -c KNOWN-FINDING) $((e-s))s $(echo "$out" | tail -1 | cut -c1-150)"
done
