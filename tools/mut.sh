#!/bin/bash
# usage: tools/mut.sh <name> <python-snippet-file-or-'-'> <check ids...>
#   creates a scratch worktree of /repo under /tmp, applies the edit (a python script that receives the
#   worktree path as argv[1], or a patch file ending in .diff), optionally runs the baseline tests,
#   runs the given checks with VERIF_REPO pointing at it, and removes the worktree.
set -u
name=$1; edit=$2; shift 2
wt=/tmp/mut_$name
git -C /repo worktree remove --force $wt 2>/dev/null
git -C /repo worktree add -q --detach $wt HEAD || exit 2
if [[ "$edit" == *.diff ]]; then
  git -C $wt apply "$edit" || { echo "patch does not apply"; git -C /repo worktree remove --force $wt; exit 2; }
else
  python3 "$edit" $wt || { echo "edit failed"; git -C /repo worktree remove --force $wt; exit 2; }
fi
git -C $wt diff --stat | tail -1
if [ "${MUT_BASELINE:-0}" = "1" ]; then
  (cd $wt && PYTHONPATH=$wt/src /venv/bin/python -m pytest -q -p no:cacheprovider --timeout=900 --continue-on-collection-errors -x -q 2>&1 | tail -1)
fi
for c in "$@"; do
  VERIF_REPO=$wt /verif/check $c --tier ${MUT_TIER:-quick} --no-evidence 2>&1 | grep -v conda | grep -E "VIOLATION|^C[0-9]+ |harness|KNOWN" | cut -c1-250 | head -6
done
git -C /repo worktree remove --force $wt
