#!/usr/bin/env python3
"""Writes /verif/MANIFEST.json from the table below (kept in one place so the
manifest is always valid and in step with the checks that exist)."""
import json
import os

VERIF = os.path.dirname(os.path.dirname(os.path.abspath(__file__)))

BASELINE = "cd /repo && /venv/bin/python -m pytest -ra -q -p no:cacheprovider --timeout=900 --continue-on-collection-errors"

# id -> (category, technique, text, note, design_ref, engine)
CHECKS = {
    "C03": (
        "model_checking",
        "bounded-exhaustive enumeration of test contracts of a guarded-failure grammar x solver x storage layout x panic-code configuration, each run end to end by the real run_contract with real solver subprocesses; verdict compared with a brute force of the same bytecode on a reference EVM over a finite argument domain",
        "Every test of the grammar `if (g1) [if (g2)] fail_k` / `if (g1) fail_a; if (g2) fail_b` (16 relations over two uint256 arguments and a storage variable set by setUp: ==, !=, <, signed <, >, "
        "x+y=c with overflow witness, x*y=c, x/y=c, x%y=c, sdiv, x**2=c, keccak equality, storage equality, masks; bytes and uint256[] length/element guards; fail_k in Panic(1), Panic(0x11), vm.assertTrue(false), "
        "DSTest fail(), revert, INVALID) is assembled into a Foundry-style test contract and run through halmos.__main__.run_contract with yices and z3, both storage layouts and "
        "--panic-error-codes in {0x01, 0x11, *}; dynamic-parameter tests also with length candidates listed out of order. The same deployed bytecode is executed on the reference EVM with Foundry cheatcode semantics from the reference post-setUp state for every argument tuple of a 12-value "
        "boundary/colliding domain per static argument and every length halmos prints for dynamic ones; a PASS without warning while a failing tuple exists is a violation.",
        "Trusted: mc/refevm.py, mc/refcheats.py, the assembler/artefact builder mc/e2e.py, mc/testgen.py. Only the sound direction is asserted. Solver calls have a 1 s / 5 s limit; timeouts give non-PASS verdicts (counted).",
        "DESIGN.md §4 C03",
        "A",
    ),
    "C04": (
        "model_checking",
        "the same bounded-exhaustive test enumeration; every reported counterexample is re-read independently from the solver's reply files, re-encoded to calldata and executed on a reference EVM",
        "Every failing test of the hash-free part of the C03 grammar (incl. the guards that need refinement: mul, div, mod, sdiv, exp) is run end to end with three solver syntaxes (yices decimal (_ bvN W), yices #b, z3 #x) "
        "and --dump-smt-directory. Dynamic-parameter tests also run with a single length candidate per parameter, and two different contracts with the same test names are run into one --dump-smt-directory. Every model halmos reports must equal an independent s-expression read of one of the solver replies on disk, the printed Counterexample lines must have a line for every variable of the model and show those values, every sat reply on "
        "disk is re-read with halmos's parser and compared, a reply that interprets an f_evm_ abstraction must not be labelled valid, and every model labelled valid is re-encoded (ABI encoder written here) and executed on the "
        "reference EVM from the reference post-setUp state: it must end in the reported assertion failure.",
        "Trusted: mc/refevm.py, mc/refcheats.py, the s-expression reader and ABI encoder in props/c04_cex.py / mc/testgen.py. Tests whose solver call times out give no model and make no claim.",
        "DESIGN.md §4 C04",
        "A",
    ),
    "C08": (
        "model_checking",
        "bounded-exhaustive enumeration of store/load programs over a grammar of location expressions, each run by the real SEVM.run in both storage layouts and compared with a flat-dict reference EVM for every key valuation of a colliding domain; complete sweep of the precomputed hash tables",
        "Every SSTORE/SLOAD/TSTORE/TLOAD program of length <= 3 (thorough: 3 over the full location alphabet) over location expressions (scalars, mappings, nested mappings, "
        "dynamic arrays, struct offsets, packed-key mappings, mappings with a 96-byte key; the same slot written as a run-time hash of concrete data, of symbolic data, and as the precomputed "
        "constant plus offset, with commuted/re-associated additions) is executed by the real SEVM.run in the solidity and generic layouts; for every valuation of "
        "the symbolic keys x,y in {0,1,2} (colliding with the concrete keys) the loaded values must equal a flat 2^256-slot dictionary with real keccak, and every "
        "valuation must be covered by a reported path. The same programs also run with the account's storage symbolic (vm.enableSymbolicStorage): the reference then starts from the admissible initial state 'every slot holds 0x77', so a never-written slot must read 0x77 on some reported path and a written one its last write. Every entry of halmos/hashes.py is recomputed with keccak and OffsetMap is probed against a dict model.",
        "Trusted: mc/refevm.py SLOAD/SSTORE/TLOAD/TSTORE + keccak, mc/symeval.py. Hash range/injectivity are documented assumptions; the domain stays away from them.",
        "DESIGN.md §4 C08",
        "A",
    ),
    "C09": (
        "model_checking",
        "bounded-exhaustive enumeration of call trees (depth <= 3, thorough 4) over generated callee contracts, each executed by the real SEVM.run and compared with a reference EVM for every value of the symbolic call value",
        "Every call tree of the shapes root->1, root->1->1, root->2 (sequence) and root->1->1->1 over per-frame alphabets (call kind in CALL/STATICCALL/"
        "DELEGATECALL/CALLCODE/CREATE/CREATE2, effects subset of SSTORE/TSTORE/LOG, value in {0,1,symbolic,forwarded}, outcome in return/revert/INVALID/"
        "out-of-bounds RETURNDATACOPY/STOP) is assembled into one contract per node. Each node returns a fixed-layout record of what it observes "
        "(CALLER, ORIGIN, ADDRESS, CALLVALUE, storage, transient storage, balance, child success flags, RETURNDATASIZE and child records) and the root "
        "finally dumps storage/transient/balance/code of every account; the whole record must equal the reference EVM's for x in {0,1,balance,balance+1}. "
        "Further families: callees whose outcome branches on the symbolic input with caller writes after the call, value-bearing self-calls, callees that return or revert with fewer bytes than the caller's pre-filled return window, value-bearing CALL (must fail the frame) and CALLCODE (legal) under a STATICCALL, directly and through CALL / DELEGATECALL frames; a symbolic address that a failing frame resolves to an account it has just created and that the caller then calls / EXTCODESIZEs (36 programs x 6 addresses); static frames with each single effect (SSTORE, TSTORE or LOG alone must fail the frame), storage and transient-storage reads of the caller between a call and RETURNDATASIZE (the return-data buffer survives them), two creations at the same address (same CREATE2 salt and init code that reverts iff it receives no value: a failed creation must leave no account behind, a successful one makes the second collide). Stuck paths and uncovered inputs are violations too.",
        "Trusted: mc/refevm.py call/create semantics (Appendix B.1), mc/calltree.py generator. Created addresses are abstract (taken from halmos's trace, "
        "consistency checked through later reads).",
        "DESIGN.md §4 C09",
        "A",
    ),
    "C01": (
        "model_checking",
        "bounded-exhaustive enumeration of all programs of a statement grammar, each run once by the real SEVM.run; every reported path evaluated on every input of a colliding finite grid and compared with a reference EVM",
        "Every program of <= L statements (quick L=2 over a 122-statement alphabet: arithmetic, memory, storage/transient storage with hashed and "
        "symbolic locations, keccak, logs, copies, branches incl. comparisons of a hash with itself plus a constant, symbolic-address EXTCODE*/BALANCE/CALL, TSTORE inside a branch body, while / do-while loops on a symbolic bound (the paths reported under the loop bound must be exact; coverage is not demanded where halmos flags the bound), calls whose output area lies beyond the end of memory, RETURNDATACOPY from non-zero source offsets, terminators; thorough adds L=3 over a 39-statement alphabet) in both storage layouts is "
        "executed symbolically once. For every input of the grid (x,y in 6 boundary values colliding with the grammar's constants, callvalue, caller, "
        "balances up to exactly 2^128) and every reported non-stuck path whose constraints evaluate to true, the claimed error kind, return data (whole memory + probes "
        "of every touched slot) and logs must equal the reference EVM's run of the same bytecode. Each path is also evaluated under a valuation in which every initial storage/balance array that must read as zero holds a non-zero value: a path that is still satisfied reads such an array without its zero-initialisation axiom and must still agree with the EVM.",
        "Trusted: mc/refevm.py, mc/symeval.py (standard interpretation of keccak and f_evm_*). Documented halmos modelling assumptions are inputs to the "
        "oracle. Claimed for the stated grammar and depths only; calls/creations are covered by C09.",
        "DESIGN.md §4 C01",
        "A",
    ),
    "C02": (
        "model_checking",
        "same bounded-exhaustive program enumeration as C01 plus exhaustive deviation-bounded exploration of the branching solver's answers (every single injected `unknown`, pairs in thorough); coverage and pruning oracles on every run",
        "For every program, the run with truthful solver answers and every run with exactly one Path.check call answered `unknown` (thorough: every pair "
        "for programs with <= 8 calls) is executed on the real SEVM.run. Oracles on every run: each input of the grid is covered by the constraints of "
        "some reported (or stuck = flagged) path; every Exec.check that answered unsat is re-examined (no grid input satisfies path conditions AND the "
        "rejected condition - pins quick_custom_check, select's store skipping, axioms); and under deviations the end states must still agree with the "
        "reference EVM (an `unknown` treated as a proof surfaces as a wrong end state). Under --symbolic-jump three programs jump to a symbolic destination (calldata word with 2 or 3 valid destinations; a truth value ISZERO(x) with pc 1 a JUMPDEST): every valid destination and the invalid-jump outcome must be covered.",
        "Trusted: as C01. The seam is halmos.sevm.Path.check rebound in the harness process (no source hook). Coverage is only demanded for inputs the "
        "reference EVM can execute and that satisfy halmos's documented assumptions.",
        "DESIGN.md §4 C02",
        "A",
    ),
    "C05": (
        "model_checking",
        "bounded-exhaustive enumeration of (per-path outcome vector x solver reply vector x --early-exit x --cache-solver x completion order x reply-delivery order) for a generated k-path test, each executed by the real run_contract / _main with a scripted solver and compared with a reference verdict function",
        "A generated test with k <= 2 (thorough 3) guarded paths plus a default path; each path ends in success, revert, Panic(1), the DSTest fail flag or an unsupported opcode (stuck). The reply to each path's query is scripted from {sat + model, sat + model interpreting an abstraction followed by the refined query's reply, unsat (with an unsat core when the "
        "query names its assertions), unsat with an empty core, unknown, time limit expired, empty output, garbage, non-zero exit with sat, crash, the solver cannot be started, a solver that is still printing its model when --early-exit cancels it (what it had written is not an answer: valid counterexamples <= complete sat answers)} (quick: 8 of them plus the last two in dedicated cases), with and without --early-exit and --cache-solver. Concurrent queries are completed in every order (--solver-threads = number of queries, delayed replies), and for single-query tests the done-callback of the solver future is additionally delayed (callbacks-last), and for tests with a stuck path the two orders `replies delivered "
        "before / after the main thread confirms the stuck path` are both taken. The TestResult exit code must equal the reference verdict FAIL > ERROR > TIMEOUT > ERROR(stuck) > ERROR(all reverted) > PASS computed from the collection of outcomes alone; through _main (stub forge) the process exit code is non-zero iff some selected test did not pass, also with a second contract in the project (processed before or after) whose only test passes, or whose setUp() reverts so that its test yields no result at all, and with a passing test run right before a test that ends in an exception.",
        "Trusted: the reference verdict function (DESIGN B.3) and the scripted solver in props/c05_verdict.py (seam: halmos.solve.PopenFuture replaced in the harness process; the subprocess layer itself is C17's subject). Completion orders are produced with real solver threads and delays, not with a controlled scheduler.",
        "DESIGN.md §4 C05",
        "A",
    ),
    "C06": (
        "exploration",
        "exhaustive sweep: every one-instruction program (opcode x operand representation x boundary operands) through the real SEVM.run compared with a reference EVM, plus complete 8-bit/4-bit operand grids through the HalmosBitVec methods",
        "For each of the 25 word-level opcodes, every combination of operand representation (concrete PUSH, calldata-symbolic, symbolic Bool-typed, "
        "concrete Bool-typed) is assembled into a one-instruction program and executed by the real SEVM.run; the reported result is evaluated for every "
        "operand tuple of the 256-bit boundary grid W (16-33 values per operand) under the exact meaning of the f_evm_* abstractions and compared with an "
        "independent Python-int EVM. A stuck path, an exception or a concrete operation that does not finish within 3 s (forked child under alarm) fails. "
        "Complete grids: all 65,536 operand pairs at 8 bits for 21 width-generic methods and all 4,096 triples at 4 bits for addmod/mulmod, each in "
        "concrete, symbolic and mixed representation.",
        "Trusted: mc/refevm.py (reference semantics), mc/symeval.py (ground evaluator, SMT-LIB semantics of interpreted operators). "
        "Not claimed: validity over all 2^512 operand pairs at 256 bits (needs an SMT proof, a different technique).",
        "DESIGN.md §4 C06",
        "A",
    ),
    "C07": (
        "model_checking",
        "explicit-state exploration of every ByteVec operation history up to a depth bound, each replayed on the real objects and compared byte for byte with a flat-list reference model",
        "Every operation sequence (quick: depth<=2 over the full 212-letter alphabet and depth<=3 over a reduced grid; thorough: depth<=3 full, depth<=4 minimal) "
        "of set_byte/set_word/set_slice (bytes, symbolic, overlapping self-slices, foreign ByteVecs), append, copy (both directions), and writes to "
        "sources and read results, run on fresh real ByteVec objects directly and through sevm.State.mslice/set_mslice/__deepcopy__. After every "
        "operation: length, chunk-shape invariant, whole content, byte/word/slice reads straddling every chunk boundary and the end, and the "
        "aliasing oracle (copies, sources and read results never change; a read never hands out the vector object itself). A read through State.mslice past the end expands memory, a ByteVec.slice does not.",
        "Trusted: the flat-list reference in props/c07_bytevec.py; z3 substitute+simplify used only to ground extract/concat terms under one valuation "
        "with pairwise distinct symbolic bytes. Not claimed: random histories beyond the depth bound.",
        "DESIGN.md §4 C07",
        "A",
    ),
    "C10": (
        "model_checking",
        "bounded-exhaustive enumeration of loop / limit programs x --loop, --width, --depth values x placements (regular test, setUp, invariant target call, second contract with the same test signature) x solver replies for stuck paths, each run end to end by the real run_contract and compared with a brute force on a reference EVM",
        "Programs: `i = 0; while (i < n) i++; if (i == K) Panic(1)` in two loop shapes (exit on the taken branch / back edge on the taken branch), nested loops, concrete trip counts 0..6, a concrete loop containing a symbolic branch, a four-path test, a test whose failing path is long, a test with an unsupported opcode on one branch; "
        "configurations --loop 1,2,3,6, --width 1,2,3, --depth 40,100, a scripted solver answering unknown / garbage for the stuck-path query. Placements: regular check_* tests, setUp() (concrete and fresh-symbol trip counts), the constructor of a test contract without setUp(), target functions spin/spind(uint256) called during invariant testing at depth 1..3, a loop on the stored value inside the invariant body itself (run once per frontier state: a cut in any state must be reported, also when the state explored last has none), two contracts "
        "with the same test signature run in one process (also two contracts of the same name in different files), two overloads of one test name in one contract, and a target function that stops at an unsupported opcode. Oracle per test: if the brute force on the reference EVM finds a failing input within the bounds and halmos reports PASS, a warning naming the limit must have been logged for that test (or bounded loops reported); tests with only concrete loop conditions must be FAIL and never "
        "carry a loop-bound warning; a path stopped at an unsupported opcode - in the test or in setUp(), at the top level or 1-3 call frames deep - must never leave the test a clean PASS; a symbolic setUp() loop of which exactly one successful path survives the cut must carry the loop-bound warning; in invariant mode the warning is demanded for every invariant test that relies on a cut frontier, whichever runs first.",
        "Trusted: mc/refevm.py, mc/invgen.py BFS, the program generators in props/c10_bounds.py, mc/solverstub.py. Warnings are read from the halmos loggers (rebinding of handlers in the harness process).",
        "DESIGN.md §4 C10",
        "A",
    ),
    "C11": (
        "model_checking",
        "every solver query produced for the explored paths of generated tests and invariant projects is intercepted, read back with z3's SMT-LIB parser and compared assertion by assertion with Path.conditions; refined definitions are evaluated on boundary grids at every width",
        "Seams (module attributes rebound in the harness): Path.to_smt2 and solve.dump. For every path handed to the solver by run_contract on the generated regular tests (26 static guards incl. add/mul/div/mod/sdiv/smod/exp/addmod/mulmod/keccak/storage, dynamic parameters) and on invariant projects at depth 2 - all of which extend a sliced "
        "setUp or frontier state - with and without --cache-solver: the query text parses, has as many assertions as the path has conditions, each structurally equal (else equal after simplification) to the corresponding condition, ids equal to the conditions' ids, cache mode wraps each as `(=> |id| c)`; the dumped file has "
        "the logic header, one (check-sat), (get-model), and in cache mode produce-unsat-cores, get-unsat-core and exactly one named assertion per id. refine() is applied to every query with an abstraction: only declare-fun f_evm_bv* lines may change, none may stay declared, and every produced definition (mul/udiv/urem/sdiv/srem at 256, 264 "
        "and 512 bits) is evaluated on a 10x10 boundary grid against the exact EVM operation (x/0 = x%0 = 0, signed cases incl. INT_MIN/-1). A test that calls svm.createCalldata (a cheatcode with several replies, forking on the literal condition `true`) must yield one counterexample per reply. Histories: for every ordered pair (thorough: permutation) of four tests that constrain a symbol created in setUp(), the set of queries of the joint run must equal the union of the sets each test produces when run alone (differential oracle for constraints leaking between paths that extend the same state).",
        "Trusted: z3's SMT-LIB parser and printer round trip (structural equality after re-parsing), the EVM reference arithmetic in props/c11_query.py. Solver replies are scripted (mc/solverstub.py) so that every query is refined; a subset runs with the real z3.",
        "DESIGN.md §4 C11",
        "A",
    ),
    "C12": (
        "exploration",
        "exhaustive sweep over ABI type trees x length-candidate configurations; halmos's calldata is flattened to per-byte atoms and decoded by an independent ABI decoder for every choice of candidate lengths; a reader program on the real SEVM must explore exactly the product of the candidate lists",
        "Every signature with 1-3 parameters over ABI type trees (base types uint256, uint8, int128, address, bool, bytes4, bytes32, bytes, string; T[], T[1], T[2], tuples; nesting <= 3) x 8 configurations "
        "(--default-array-lengths / --default-bytes-lengths / --array-lengths incl. unordered lists and per-name overrides; named parameters and the unnamed ones solc emits as "") is turned into an ABI table by halmos.calldata.get_abi (as for a compiled artefact; multi-dimensional arrays of tuples included; the qualified names p, p[i], p.m of the dynamic parameters are derived from the ABI item independently and select the --array-lengths entries, incl. entries for members of struct-array elements) and built by halmos.calldata.mk_calldata. The result is flattened to (constant byte | byte k of symbol s) atoms "
        "and, for every combination of candidate lengths, decoded by an ABI decoder written from the specification: offsets concrete and in range, every leaf a whole, distinct, otherwise unused symbol, leaf regions disjoint, every size "
        "symbol heading exactly one length word. The candidate lists halmos derives are compared with an independent reading of the configuration. A generated reader program (CALLDATALOAD of every length word) is run on the real SEVM, also with a second symbolic calldata registered on the same path and with the calldata created on a parent path that the executing path extends: the returned length tuples must be "
        "exactly the product of the candidate lists. Unsupported types (fixedMxN, ufixed, function) must raise.",
        "Trusted: the atom flattener and ABI decoder in props/c12_calldata.py. Narrow types are full-word symbols by design (documented over-approximation). Products above 512 combinations are restricted to all-min, all-max and single deviations (counted as capped).",
        "DESIGN.md §4 C12",
        "A",
    ),
    "C13": (
        "model_checking",
        "complete sweep of the assert selector table and of every handler over operand grids (concrete and symbolic operands), plus bounded-exhaustive behavioural programs (failing call at call depth 0..3, every single injected solver `unknown`) on the real SEVM.run compared with a reference EVM carrying Foundry's assert/assume semantics",
        "(1) halmos.assertions.assert_cheatcode_handler must be exactly the forge-std grammar assert{True,False,Eq,NotEq,Lt,Gt,Le,Ge} x {bool,uint256,int256,address,bytes32,string,bytes and their arrays} x optional message, each key = keccak of its signature (76 entries). "
        "(2) For every selector and every operand tuple of a grid (10 boundary words with both signs squared; arrays of length 0..2 incl. different lengths; bytes/strings of length 0,1,32,33 incl. equal prefixes), with concrete calldata and with the operands replaced by symbols, "
        "the condition built by the handler is grounded and must be true exactly when the stated relation holds (signedness, element-wise and length-sensitive equality). (3) Generated programs call every word-typed vm.assert* / vm.assume with symbolic operands from a frame at call "
        "depth 0..3 whose callers ignore the success flag; on the real SEVM.run, for every input of the 100-point grid a FailCheatcode path admits the input iff the relation is false (also with each single branching-solver answer replaced by `unknown`), continuing paths agree with the "
        "reference where the relation holds, and after vm.assume(c) no path admits an input violating c.",
        "Trusted: mc/refcheats.py (assert/assume semantics and selector grammar), mc/refevm.py, mc/symeval.py; grounding of closed terms uses z3.substitute+simplify (evaluation only). halmos lets the continuing path also admit failing inputs (the sibling path reports the failure): not asserted against.",
        "DESIGN.md §4 C13",
        "A",
    ),
    "C14": (
        "model_checking",
        "bounded-exhaustive enumeration of prank-family operation sequences, state-cheatcode cases and fresh-symbol requests (all widths), each run by the real SEVM.run and compared for every input / tape value with a reference EVM carrying Foundry's cheatcode state machine",
        "Prank: every sequence of length <= 3 (thorough 4) over prank(a), prank(a,o), startPrank(a), startPrank(a,o), stopPrank(), prank(x) with a symbolic address, CALL/STATICCALL to an observer that calls a second observer, CREATE of an observer, an intervening cheatcode call, a call to an account without code (it uses up a one-shot prank), a helper frame issuing its own prank and a call to an observer that returns on two paths (so that the pranking frame resumes twice); "
        " every observed (msg.sender, tx.origin) pair - in the callee, in the callee's callee and in constructors - must equal the reference state machine, and halmos may stop with an internal error only where Foundry rejects the sequence (prank over an active prank). State: deal, store/load, etch, warp, roll, fee, chainId, "
        "coinbase, difficulty with concrete and symbolic arguments, issued from the root or a nested frame, then every relevant opcode read in the same and in another frame on the targeted and on another account; a block value set before a fork and again, differently, on each side; store/deal followed by (re-)etching and reads; a symbolic address looked at before and after the etch that creates the account it may denote; vm.addr over valid secp256k1 keys (equal keys equal addresses, different keys different ones, the real address of a concrete key); deal/store/load also through a fresh symbolic address that vm.assume pins to an existing account. Fresh symbols: createUint/createInt/randomUint/randomInt for bit widths 1..256 (quick: 17 boundary widths), "
        "bytes/string sizes {0,1,31,32,33,65}, all fixed-type creators, min/max pairs over boundary words: symbol width, zero/sign extension, range constraints, ABI layout and pairwise independence checked against an input-tape reference for every tape value of a grid.",
        "Trusted: mc/refcheats.py (Foundry prank rules, cheatcode effects, tape semantics of fresh values), mc/refevm.py, mc/symeval.py. DELEGATECALL under prank, console calls, balances above 2^128 and cheatcodes issued in frames that later revert are outside the alphabet.",
        "DESIGN.md §4 C14",
        "A",
    ),
    "C15": (
        "model_checking",
        "bounded-exhaustive enumeration of generated invariant-testing projects (target function sets x invariants x depth 0..3 x filter combinations), each run end to end by the real run_contract; verdicts, cached frontier states and explored calls compared with a breadth-first search over all call sequences on a reference EVM",
        "Projects: a test contract whose setUp() CREATEs 1-2 targets built from {inc, dec, set(uint8), rng(uint8), setb(uint8), step, pay, tick, own, bad, dbl} plus claim() (t = msg.sender: the sender filters still bind the stored sender in later calls), chain(x,z,w) (a four-link chain of constraints reaching the stored value), plus target functions whose names are reserved in the test contract only (check_in(), invariant_x(), setUp(), afterInvariant(), prove_it()) plus {setw, eq5, fwd} (a stored word compared with a constant by one function and forwarded into a nested call by another) (all subsets of size <= 2, selected / thorough all triples), invariants s != c, s <= 1, t <= 1, t <= block.timestamp (time never runs backwards along a sequence), --invariant-depth 0..3, and for a two-target project every "
        "combination (quick: up to two kinds at a time) of targetSenders/excludeSenders/targetContracts/excludeContracts/targetSelectors (incl. several entries for one address)/excludeSelectors. The reference runs the same bytecode on mc/refevm.py: BFS over all sequences of admitted calls with arguments, senders, "
        "msg.value and timestamp increments from small domains that are complete for this grammar. Oracles: an invariant broken by a sequence of <= d calls <=> halmos FAIL at depth d; every target state reached by the reference in k calls is an instance of a cached frontier state of depth <= k (storage terms and path "
        "conditions grounded over a finite assignment domain), so over-merging, an off-by-one in the depth loop or a dropped target shows up as an unrepresented state; every call recorded in the frontier call sequences is admitted by Foundry's filter rules; a reachable assertion failure inside a target must be reported and fail; every counterexample marked valid is turned back into a concrete call sequence (calldata, senders, values and the timeline from the model) and replayed on the reference EVM, where every call must succeed and the invariant must then fail.",
        "Trusted: mc/invgen.py (project generator, Foundry filter resolution as documented, BFS), mc/refevm.py. msg.value is not moved by the top-level message (halmos modelling decision) and tx.origin is over-approximated: targets only read msg.value, never tx.origin. Two open findings are listed in known_findings.json.",
        "DESIGN.md §4 C15",
        "A",
    ),
    "C16": (
        "model_checking",
        "explicit-state exploration of every history of solve_end_to_end calls over a small id alphabet against a scripted ground-truth solver with every core shape, plus a cache-off/cache-on differential of generated many-path tests with real solvers, forced garbage collections and a cache-key invariant",
        "Histories: all sequences of <= 3 (thorough 4) queries (non-empty subsets of four textually nested assertion ids 7/71/171/27, plus a 30-id scenario) on one shared SolvingContext, for four ground-truth families of unsatisfiable id sets and six core shapes (minimal, whole query, with an (error ...) line, wrapped over several lines as yices prints long cores, "
        "empty, garbage). The real dump / from_result / parse_unsat_core / check_unsat_cores / solve_end_to_end run; only the solver subprocess is replaced in-process. Invariants after every call: the answer equals the ground truth, and a query is answered without consulting the solver only if it is unsatisfiable in the ground truth. "
        "Unsat results are handed to the real CounterexampleHandler._solve_end_to_end_callback, which decides what is cached. Differential: three hand-written contracts with ground-truth verdicts (one of them 16 tests whose unsat cores are over test-local conditions, also run with reclamation only between tests) (paths decided only by the refined query; a path that is infeasible only through the implicit constraint balance >= value) and generated tests with 6..40 paths per function (infeasible branches whose contradiction the external solver must find, sharing or not sharing conditions; vm.assume-based variants) and nested/sequential guard tests are run by run_contract with z3 and yices, cache off and on, every branching query answered `unknown` so that "
        "infeasible paths reach the solver, with and without a forced gc.collect() before every condition is appended: verdicts and counterexample sets must be equal, every real cache hit is re-solved without the cache and must be unsat, and an assertion id named by a cached core must never come to denote a different condition.",
        "Trusted: the ground-truth solver and the re-solve with /usr/bin/z3 in props/c16_cache.py. Both layers use halmos's own done-callback to append cores (in the history layer on a bare FunctionContext carrying args, solver_outputs and the solving context).",
        "DESIGN.md §4 C16",
        "A",
    ),
    "C17": (
        "model_checking",
        "stateless, deviation/preemption-bounded exploration (CHESS style) of the real halmos/processes.py and solve.solve_low_level under a cooperative scheduler with simulated subprocesses; invariants evaluated on every complete schedule",
        "halmos/processes.py runs unmodified: threading.{Thread,Lock,RLock,Event,Condition}, concurrent.futures' Condition, the thread pool that shutdown(wait=False) uses, Popen, psutil and time are scheduler-owned shims (module attributes rebound in "
        "the harness process); scheduling points are every shim operation plus every source line of the racy functions of processes.py (sys.settrace). Process exit, communicate()-timeout expiry, spawn failure and a process ignoring SIGTERM (the grace wait then raises psutil.TimeoutExpired and only kill() ends it) are environment choices. For 15 harnesses "
        "(submit racing shutdown(wait=False|True), two jobs with a graceful shutdown and an independent waiter, a job with a time limit, submit after shutdown, graceful then forceful shutdown (directly and through ExecutorRegistry.shutdown_all), two submitters, spawn failure, solve_low_level with 5 s / 300 ms / no limit "
        "and with a concurrent early-exit shutdown, solve_end_to_end on a query whose first reply is sat with an abstract model so that a second, refined job is issued - alone and racing a shutdown; a solver process with a child of its own that may exit at any moment - signalling it then raises NoSuchProcess - or ignore SIGTERM, under a racing shutdown and under a time limit) every schedule with <= 1 deviation (<= 2 for the two submit-vs-shutdown races and the two child-process harnesses; thorough: <= 2 for all small harnesses) from the default schedule is executed to completion. Invariants per execution: no deadlock or livelock, no uncaught exception, "
        "every accepted future completes and its waiters get the process output, a job whose limit expired surfaces as TimeoutExpired / `unknown` and never as a result, the limit handed to the process layer is the configured one, once shutdown() has returned "
        "nobody is still or newly waiting on a live process, submit after shutdown is refused, no process - and no child of a killed solver process - is alive at the end. A free-running pass with real threads and real echo/sleep/sh subprocesses checks the simulated protocol, and the executor of every FunctionContext (query files in a temporary or in a --dump-smt-directory) must be registered with ExecutorRegistry and obey shutdown_all().",
        "Trusted: mc/sched.py (scheduler, shims, simulated Popen/psutil semantics incl. EBADF when cancel() closes the pipes under communicate()). Memory-model effects below Python statement granularity and real signal delivery latencies are not modelled. "
        "shutdown(wait=True) re-raising a job's own exception from _join() is tolerated (recorded, not asserted).",
        "DESIGN.md §4 C17",
        "B",
    ),
    "C18": (
        "exploration",
        "exhaustive enumeration of configuration layer stacks, solver source pairs, structured option values and annotation placements, each resolved by the real halmos config code / _main and compared with a reference precedence fold",
        "For each option (quick: 12 representative incl. bool, countable, int, choice and every structured type; thorough: all 56 fields) every stack of <= 4 (thorough 5) layers over {config file, contract annotation, function annotation, "
        "command line}, each built by the real argparse/TOML parsers and setting the option or not with values that include the falsy ones (0, empty string, '*', false), is resolved and compared with the reference fold (source rank, then recency). "
        "--solver-command vs --solver over all source pairs and both application orders. Every value of the structured grammars (timeouts with units and fractions, error-code sets, array-length maps, CSV lists, trace events) round-trips through "
        "unparse/parse and through the `python -m halmos.config` TOML emission + TomlParser; native (non-string) TOML values must mean what the same text means on the command line or be rejected; contract-level annotations are written in every documented layout (continuation lines, mid-line tags, several tags); 77 malformed strings must be rejected by the parser, the command line and the config file, and so must wrong-typed or out-of-choice config-file values of 12 plain options (a string for a flag, a list for an integer, an unknown layout / solver name). The solver built for the setup phase gets setUp()'s own --solver-max-memory. Annotation scoping: generated projects with every subset of "
        "five annotation placements over two contracts that share function signatures x toml x command line are run through halmos.__main__._main (stub forge) and the configuration every setUp()/test actually receives - value and the source it is attributed to - is compared with the fold.",
        "Trusted: the reference fold (Appendix B.4) and the option value tables in props/c18_config.py. The scoping observation rebinds halmos.__main__.run_test/setup in the harness process (no source hook).",
        "DESIGN.md §4 C18",
        "A",
    ),
    "C19": (
        "exploration",
        "exhaustive enumeration of all byte strings up to a length bound x symbolic-region placements, each compared with a reference decoder; exhaustive jump programs through SEVM.run",
        "Complete sweep (exhaustive: true) of every code string over an 8-letter alphabet that has one representative per decoding class "
        "(quick: length<=4 with every symbolic region; thorough: <=5 with every region and <=6 with every prefix/suffix split), in three code "
        "representations (chunk list; one term or hex string; a window of a bigger buffer that was patched after the fact, as for immutables). For each contract every observable of the decoder (len, valid_jumpdests, byte reads, decode_instruction at every pc, "
        "slice on the whole (start,size) grid) is compared with an independent reference decoder, and every JUMP/JUMPI program over short "
        "bodies is executed by the real SEVM.run and compared with a reference interpreter; (EXT)CODECOPY programs that read across and past the end of their own code (offsets end-2..end+1, 0, 2^200; sizes 0..64; dirty and fresh memory; MSIZE and CODESIZE afterwards) and loops whose head is a JUMPDEST at pc 0 are compared with the reference EVM.",
        "Trusted: the 20-line reference decoder/interpreter in props/c19_decode.py; z3 substitute+simplify used only to ground extract/concat terms. "
        "Not claimed: random strings up to 4 KiB (sampling).",
        "DESIGN.md §4 C19",
        "A",
    ),
    "C20": (
        "model_checking",
        "explicit-state exploration of test histories (every ordered subset / doubling of the tests of a generated contract, repeated runs in one process, three injective symbol-suffix generators), each executed by the real run_contract and compared test by test with the solo result and with a brute force on a reference EVM",
        "One generated contract with nineteen tests chosen to expose leaks: a failing and a passing test, a test that writes the storage variable every other test reads, a test that computes keccak(p) at run time and a test that reads the constant slot keccak(p) written by setUp, two tests that re-read calldata after a branch (one can never "
        "fail, one fails for exactly one input: sibling-path isolation), two invariant tests sharing the frontier cache, a test that TSTOREs and lets the target TLOAD the same slot (per-account transient storage), a test of vm.addr distinctness without and with a branch before it, a test of the block seen by setUp() (which records the timestamp, then warps: every run of the process starts from the default block), a test comparing keccak(x) with keccak(x+1) after a non-concretising branch (each sibling path carries its own hash assumptions), a pair reading the code size / code hash of a symbolic address created in setUp (alias candidates), and a pair for configuration layers (a test that needs three loop iterations under the contract-level annotation --loop 4, a test with the function-level annotation --loop 1). Histories: every test doubled, every ordered pair, selected (thorough: all) ordered triples, the full list in both orders; a subset again with reversed and multiplicative uid() generators and run twice in one process. "
        "Oracle: the normalised result of every test in every history (exit code, path counts, number of counterexamples, validity flags, replay outcome of each valid counterexample on the reference EVM, bounded loops) equals its solo result; solo results agree with a brute force (PASS: no failing input; FAIL: expected input set; invariant verdicts at depth 2).",
        "Trusted: mc/refevm.py, mc/e2e.py, mc/invgen.py. Concrete model values are not compared across runs (a solver may return any model): their replay is. uid() is rebound in the harness process (seam).",
        "DESIGN.md §4 C20",
        "A",
    ),
}

NOT_YET = "check not built yet in this session (work in progress; see DESIGN.md §4 for the planned bounded-exhaustive check)"


def main():
    props = [json.loads(l)["id"] for l in open(os.path.join(VERIF, "properties.jsonl"))]
    checks = []
    for pid in props:
        if pid not in CHECKS:
            continue
        cat, tech, text, note, ref, engine = CHECKS[pid]
        checks.append(
            {
                "property_id": pid,
                "quick_cmd": f"./check {pid} --tier quick",
                "thorough_cmd": f"./check {pid} --tier thorough",
                "evidence_file": f"evidence/{pid}.json",
                "replay_cmd_template": f"./check {pid} --replay {{path}}",
                "engine": engine,
                "level_claimed": {"category": cat, "text": text, "design_ref": ref},
                "level_note": note,
                "technique": tech,
            }
        )
    na = [{"property_id": p, "reason": NA.get(p, NOT_YET)} for p in props if p not in CHECKS]
    man = {
        "version": 1,
        "setup_cmd": "true",
        "hooks": {
            "guard": "HALMOS_VERIF",
            "enable": "no source hooks: every seam is a module attribute rebound inside the harness process",
            "baseline_off_cmd": BASELINE,
            "source_commits": [],
            "add_only": True,
        },
        "engines": [
            {
                "name": "A",
                "path": "mc/core.py",
                "serves_properties": [p for p in props if p in CHECKS and CHECKS[p][5] == "A"],
                "kind_free_text": "bounded-exhaustive exploration of operation sequences / inputs / environment answers on the real halmos code, against reference models written in /verif (explicit-state style; states = histories)",
            },
            {
                "name": "B",
                "path": "mc/sched.py",
                "serves_properties": [p for p in props if p in CHECKS and CHECKS[p][5] == "B"],
                "kind_free_text": "stateless preemption-bounded schedule exploration (CHESS style) of halmos/processes.py under a cooperative scheduler with simulated subprocesses",
            },
        ],
        "checks": checks,
        "not_applicable": na,
        "notes": "Python only; run with /venv/bin/python (shebang of ./check). Fixes to a16z/halmos are 'fix:' commits in /repo and recorded in known_findings.json.",
    }
    with open(os.path.join(VERIF, "MANIFEST.json"), "w") as f:
        json.dump(man, f, indent=1)
    print(f"{len(checks)} checks, {len(na)} not_applicable")


NA = {}

if __name__ == "__main__":
    main()
