#!/bin/bash
# usage: tools/seedbatch.sh <wave> "Cxx k checks..." ...   verifies sub-agent seeds /tmp/seed<wave>_<Cxx>/OUT/mut<k>.diff one after the other
w=$1; shift
cd /verif
for s in "$@"; do
  set -- $s; p=$1; k=$2; shift 2
  echo "######## $p $k $@"
  SEED_SRC=/tmp/seed${w}_$p/OUT tools/seedcheck.sh $p $k "$@" 2>&1 | grep -E "^== |VIOLATION|^C[0-9]+ quick|passed|exit=|patch does not|KNOWN" | cut -c1-170
done
