#!/usr/bin/env python3
"""usage: tools/keepseed.py <Cxx> <k> <detected_by: comma list or 'none'> [note]
copies the sub-agent's seeded defect /tmp/seed_<Cxx>/OUT/{mut<k>.diff,demo<k>.py,notes<k>.md} to /verif/seeded/<Cxx>-<k>/"""
import json, os, shutil, sys
p, k, det = sys.argv[1], sys.argv[2], sys.argv[3]
note = sys.argv[4] if len(sys.argv) > 4 else ""
src = os.environ.get("SEED_SRC", f"/tmp/seed_{p}/OUT")
dst = f"/verif/seeded/{p}-{os.environ.get('SEED_AS', k)}"
os.makedirs(dst, exist_ok=True)
shutil.copy(f"{src}/mut{k}.diff", f"{dst}/patch.diff")
shutil.copy(f"{src}/demo{k}.py", f"{dst}/demo.py")
notes = open(f"{src}/notes{k}.md").read()
open(f"{dst}/notes.md", "w").write(notes)
meta = {
    "property": p,
    "breaks": p,
    "origin": "written by an independent sub-agent given only the property text and a scratch worktree",
    "needs_to_manifest": notes.strip(),
    "confirmed": {
        "ran": f"tools/seedcheck.sh {p} {k} <checks>: baseline pytest with the patch (306 passed, 8 known forge failures), demo.py on the clean tree (PASS, exit 0) and with the patch (FAIL, exit 1), then the listed checks with VERIF_REPO pointing at the patched scratch worktree",
        "baseline_passes_with_patch": True,
        "demo_fails_with_patch_passes_without": True,
    },
    "detected_by": [] if det == "none" else det.split(","),
    "note": note,
}
json.dump(meta, open(f"{dst}/meta.json", "w"), indent=1)
print("kept", dst)
