"""C12 - symbolic calldata is a fully general, well-formed ABI encoding.

Complete sweep over ABI type trees (bounded nesting / arity) x length-candidate
configurations.  For each signature the calldata built by halmos.calldata is
flattened to a per-byte atom list (concrete byte | byte k of symbol s) and, for
every choice of the candidate lengths, decoded by an ABI decoder written here
from the ABI specification: offsets must be concrete, in range and consistent,
every decoded leaf must be a full, distinct, otherwise unused symbol, the leaf
regions must be disjoint.  A generated reader program run on the real SEVM
must explore exactly the product of the candidate lists.  Unsupported types
must be rejected with an error."""

from __future__ import annotations

import itertools

import z3

from mc import asm, e2e, hdriver
from mc.core import Acc, rotate

ID = "C12"
LEVEL = "exploration"
ASSUMPTIONS = [
    "type trees: base types {uint256,uint8,int128,address,bool,bytes4,bytes32,bytes,string}; T[], T[1], T[2], tuples up to arity 2, nesting up to 3; signatures with 1-3 parameters (thorough: additionally every pair over the 48 types of nesting <= 1)",
    "parameter names: a0, a1, ... (components c0, ...) and, separately, every parameter and component unnamed (the empty string solc emits)",
    "length configurations: --default-array-lengths / --default-bytes-lengths / --array-lengths over {0}, {1}, {0,2}/{0,33}, defaults {0,1,2}/{0,65,1024}, unordered lists {2,0}/{65,32}, a per-name override",
    "narrow types are modelled by halmos as full-word symbols (documented over-approximation): a leaf is required to be a full 256-bit symbol, not a range-restricted one",
    "when the product of candidate lists exceeds 512 the combinations are restricted to all-min, all-max and every single deviation from all-max (reported as capped_signatures)",
]

BASE = ["uint256", "uint8", "int128", "address", "bool", "bytes4", "bytes32", "bytes", "string"]
SMALL = ["uint256", "bytes", "uint8"]
UNSUPPORTED = ["fixed128x18", "ufixed128x18", "function", "fixed", "ufixed"]


def level1():
    out = []
    for t in BASE:
        out += [f"{t}[]", f"{t}[1]", f"{t}[2]"]
    for t in SMALL:
        out.append(f"({t})")
    for a, b in itertools.product(SMALL, repeat=2):
        out.append(f"({a},{b})")
    return out


L1_SMALL = ["uint256", "bytes", "uint256[]", "bytes[]", "uint256[2]", "(uint256,bytes)", "string[2]"]


def level2():
    out = []
    for t in L1_SMALL[2:]:
        out += [f"{t}[]", f"{t}[2]"]
    for a, b in itertools.product(L1_SMALL, repeat=2):
        out.append(f"({a},{b})")
    return out


L2_SMALL = ["uint256[][]", "(uint256,bytes)[]", "(uint256[],bytes)", "bytes[][2]", "(bytes,(uint256,bytes))", "(uint256,bytes)[2][]", "(uint256)[][2]", "(uint256,uint256)[2][3]"]


def level3():
    out = []
    for t in L2_SMALL:
        out += [f"{t}[]", f"{t}[2]", f"({t},uint256)", f"(bytes,{t})"]
    return out


def signatures(tier):
    types = BASE + level1() + level2()
    sigs = [[t] for t in types]
    pair_pool = ["uint256", "bytes", "uint8[]", "bytes[]", "uint256[2]", "(uint256,bytes)", "string", "(bytes,uint256[])", "bytes32[][]", "address"]
    for a, b in itertools.product(pair_pool, repeat=2):
        sigs.append([a, b])
    if tier in ("thorough", "deep"):
        sigs += [[t] for t in level3()]
        tri = ["uint256", "bytes", "uint256[]", "(uint256,bytes)", "string[]"]
        for a, b, c in itertools.product(tri, repeat=3):
            sigs.append([a, b, c])
        for a in types:
            sigs.append(["bytes", a])
    if tier == "deep":
        pool = BASE + level1()
        for a, b in itertools.product(pool, repeat=2):
            sigs.append([a, b])
    return sigs


CONFIGS = [
    {"default_array_lengths": "0", "default_bytes_lengths": "0"},
    {"default_array_lengths": "1", "default_bytes_lengths": "1"},
    {"default_array_lengths": "0,2", "default_bytes_lengths": "0,33"},
    {},  # defaults: 0,1,2 / 0,65,1024
    {"default_array_lengths": "2,0", "default_bytes_lengths": "65,32"},
    {"default_array_lengths": "1", "default_bytes_lengths": "32", "array_lengths": "a0={1,3},a1=2"},
    {"default_array_lengths": "0", "default_bytes_lengths": "0", "array_lengths": "a0=12,a1={10,3}"},
    # members of struct elements are addressed by their qualified names; the top-level a1 entry does not apply to them
    {"default_array_lengths": "1", "default_bytes_lengths": "32", "array_lengths": "a0[0].a1={3,40},a0[1].a1=5,a1=70,a0=2"},
    {"_names": "unnamed"},  # `function f(uint256, bytes memory)`: solc emits "" for every unnamed parameter / component
    {"_names": "unnamed", "default_array_lengths": "2,0", "default_bytes_lengths": "65,32"},
]

# ---------------------------------------------------------------------------
# flattening halmos's calldata
# ---------------------------------------------------------------------------


class DecodeError(Exception):
    pass


def flatten(term):
    """z3 bit-vector term (or bytes) -> list of atoms: int byte | (symbol name, byte index from the most significant byte, symbol byte width)"""
    if isinstance(term, (bytes, bytearray)):
        return list(term)
    if z3.is_bv_value(term):
        n = term.size() // 8
        return list(term.as_long().to_bytes(n, "big"))
    if z3.is_const(term) and term.decl().kind() == z3.Z3_OP_UNINTERPRETED:
        n = term.size() // 8
        if term.size() % 8:
            raise DecodeError(f"symbol {term} is not byte sized")
        return [(term.decl().name(), i, n) for i in range(n)]
    k = term.decl().kind()
    if k == z3.Z3_OP_CONCAT:
        out = []
        for c in term.children():
            out += flatten(c)
        return out
    if k == z3.Z3_OP_EXTRACT:
        hi, lo = term.params()
        inner = flatten(term.arg(0))
        w = term.arg(0).size()
        if (hi + 1) % 8 or lo % 8:
            raise DecodeError(f"unaligned extract {term}")
        start = (w - 1 - hi) // 8
        return inner[start : start + (hi + 1 - lo) // 8]
    raise DecodeError(f"unexpected term in calldata: {str(term)[:80]}")


# ---------------------------------------------------------------------------
# independent ABI decoder over atoms
# ---------------------------------------------------------------------------


def split_top(s):
    out, depth, cur = [], 0, ""
    for ch in s:
        if ch == "," and depth == 0:
            out.append(cur)
            cur = ""
            continue
        depth += ch == "("
        depth -= ch == ")"
        cur += ch
    if cur:
        out.append(cur)
    return out


def parse_type(t):
    """-> ("base", name) | ("tuple", [types]) | ("array", elem, None|k)"""
    if t.endswith("]"):
        i = t.rindex("[")
        k = t[i + 1 : -1]
        return ("array", parse_type(t[:i]), int(k) if k else None)
    if t.startswith("("):
        return ("tuple", [parse_type(x) for x in split_top(t[1:-1])])
    return ("base", t)


def is_dynamic(ty):
    if ty[0] == "base":
        return ty[1] in ("bytes", "string")
    if ty[0] == "tuple":
        return any(is_dynamic(x) for x in ty[1])
    return ty[2] is None or is_dynamic(ty[1])


def head_size(ty):
    if is_dynamic(ty):
        return 32
    if ty[0] == "base":
        return 32
    if ty[0] == "tuple":
        return sum(head_size(x) for x in ty[1])
    return ty[2] * head_size(ty[1])


class Decoder:
    def __init__(self, atoms, sizes):
        self.atoms = atoms
        self.sizes = sizes  # size symbol name -> chosen int
        self.leaves = []  # (path, kind, symbol name, start, end)
        self.size_syms_seen = []

    def word(self, off, what):
        if off < 0 or off + 32 > len(self.atoms):
            raise DecodeError(f"{what}: word at {off} is outside the calldata of {len(self.atoms)} bytes")
        w = self.atoms[off : off + 32]
        if all(isinstance(a, int) for a in w):
            return ("int", int.from_bytes(bytes(w), "big"))
        if all(isinstance(a, tuple) for a in w) and len({a[0] for a in w}) == 1 and [a[1] for a in w] == list(range(32)) and w[0][2] == 32:
            return ("sym", w[0][0])
        raise DecodeError(f"{what}: word at {off} is neither a constant nor one whole symbol: {w[:3]}..")

    def offset(self, off, what):
        k, v = self.word(off, what)
        if k != "int":
            raise DecodeError(f"{what}: offset word at {off} is symbolic ({v})")
        return v

    def length(self, off, what):
        k, v = self.word(off, what)
        if k == "int":
            raise DecodeError(f"{what}: length word at {off} is a constant {v}, expected a size symbol")
        if v not in self.sizes:
            raise DecodeError(f"{what}: length word at {off} is symbol {v}, which has no size candidates")
        self.size_syms_seen.append((v, off))
        return self.sizes[v]

    def decode(self, ty, off, path):
        """decode a value whose encoding starts at absolute offset `off`"""
        if ty[0] == "base":
            if ty[1] in ("bytes", "string"):
                n = self.length(off, path)
                start = off + 32
                if start + n > len(self.atoms):
                    raise DecodeError(f"{path}: {n} content bytes at {start} exceed the calldata ({len(self.atoms)} bytes)")
                body = self.atoms[start : start + n]
                if n:
                    if not all(isinstance(a, tuple) for a in body):
                        raise DecodeError(f"{path}: content bytes are not symbolic: {body[:4]}")
                    if len({a[0] for a in body}) != 1 or [a[1] for a in body] != list(range(n)):
                        raise DecodeError(f"{path}: content is not bytes [0,{n}) of one symbol: {body[:3]}..{body[-1:]}")
                    self.leaves.append((path, "bytes", body[0][0], start, start + n))
                else:
                    self.leaves.append((path, "bytes", None, start, start))
                return
            k, v = self.word(off, path)
            if k != "sym":
                raise DecodeError(f"{path}: static leaf at {off} is the constant {v}")
            if v in self.sizes:
                raise DecodeError(f"{path}: static leaf at {off} is a size symbol {v}")
            self.leaves.append((path, "word", v, off, off + 32))
            return
        if ty[0] == "tuple":
            self.decode_seq(ty[1], off, path, [f"{path}.{i}" for i in range(len(ty[1]))])
            return
        elem, k = ty[1], ty[2]
        if k is None:
            n = self.length(off, path)
            self.decode_seq([elem] * n, off + 32, path, [f"{path}[{i}]" for i in range(n)])
        else:
            self.decode_seq([elem] * k, off, path, [f"{path}[{i}]" for i in range(k)])

    def decode_seq(self, types, base, path, names):
        """components of a tuple-like whose encoding starts at `base` (offsets are relative to it)"""
        pos = base
        for ty, nm in zip(types, names):
            if is_dynamic(ty):
                rel = self.offset(pos, nm)
                if base + rel + 32 > len(self.atoms) and not (ty[0] == "tuple" or (ty[0] == "array" and ty[2] is not None)):
                    raise DecodeError(f"{nm}: offset {rel} (base {base}) points outside the calldata")
                self.decode(ty, base + rel, nm)
                pos += 32
            else:
                self.decode(ty, pos, nm)
                pos += head_size(ty)


def check_decoded(dec, sig_types):
    """independence / disjointness of the decoded leaves"""
    seen = {}
    for path, kind, sym, a, b in dec.leaves:
        if sym is None:
            continue
        if sym in seen:
            return f"symbol {sym} is used by two leaves: {seen[sym]} and {path}"
        seen[sym] = path
    regions = sorted((a, b, p) for p, k, s, a, b in dec.leaves if b > a)
    for (a1, b1, p1), (a2, b2, p2) in zip(regions, regions[1:]):
        if a2 < b1:
            return f"leaf regions overlap: {p1} [{a1},{b1}) and {p2} [{a2},{b2})"
    # a size symbol must head exactly one length word
    syms = [s for s, _ in dec.size_syms_seen]
    if len(set(syms)) != len(syms):
        return f"a size symbol is used for two length words: {syms}"
    return None


# ---------------------------------------------------------------------------
# halmos side
# ---------------------------------------------------------------------------


def expected_candidates(d, config):
    """length candidates of one dynamic parameter according to the configuration: --array-lengths name=n | name={a,b,...}, else the
    default list of its kind (defaults 0,1,2 for arrays and 0,65,1024 for bytes/string)"""
    import re as _re

    over = {}
    for nm, braced, single in _re.findall(r"([^=,{}\s]+)=(?:\{([^}]*)\}|(\d+))", config.get("array_lengths", "") or ""):
        over[nm] = [int(x) for x in braced.split(",")] if braced else [int(single)]
    if d.name in over:
        return over[d.name]
    is_array = type(d.typ).__name__ == "DynamicArrayType"
    txt = config.get("default_array_lengths", "0,1,2") if is_array else config.get("default_bytes_lengths", "0,65,1024")
    return [int(x) for x in str(txt).split(",")]


def candidates_by_name(nm, is_array, config):
    class _D:  # the shape expected_candidates() reads
        pass

    d = _D()
    d.name = nm
    d.typ = type("DynamicArrayType" if is_array else "BaseType", (), {})()
    return expected_candidates(d, config)


def expected_dyn_names(inputs, config):
    """qualified names of every dynamic-size leaf (T[] and bytes/string), from the ABI item: members are `p.m`, elements `p[i]`; a T[] has
    as many elements as its largest configured length"""
    import re as _re

    out = []

    def walk(t, comps, nm):
        m = _re.match(r"^(.*)\[(\d*)\]$", t)
        if m:
            inner, k = m.group(1), m.group(2)
            if k == "":
                out.append(nm)
                n = max(candidates_by_name(nm, True, config))
            else:
                n = int(k)
            for i in range(n):
                walk(inner, comps, f"{nm}[{i}]")
        elif t == "tuple":
            for c in comps:
                walk(c["type"], c.get("components", []), f"{nm}.{c['name']}")
        elif t in ("bytes", "string"):
            out.append(nm)

    for it in inputs:
        walk(it["type"], it.get("components", []), it["name"])
    return out


def strip_names(items):
    for it in items:
        it["name"] = ""
        strip_names(it.get("components", []))


def build_calldata(types, config):
    from halmos.calldata import FunctionInfo, mk_calldata

    from halmos.calldata import get_abi

    sig = f"f({','.join(types)})"
    item = e2e.abi_of(sig)
    config = dict(config)
    if config.pop("_names", None) == "unnamed":
        strip_names(item["inputs"])
    # the signature -> ABI item table is built by halmos from the artefact's ABI list, as for a compiled contract
    abi = get_abi({"abi": [item]})
    info = FunctionInfo("C", "f", sig, f"{e2e.sel(sig):08x}")
    args = e2e.mk_config(config)
    cd, dyn = mk_calldata(abi, info, args)
    return sig, cd, dyn, args


def combos(dyn, cap=512):
    lists = [list(d.size_choices) for d in dyn]
    total = 1
    for l in lists:
        total *= len(l)
    if total <= cap:
        return list(itertools.product(*lists)), False
    out = {tuple(min(l) for l in lists), tuple(max(l) for l in lists)}
    top = [max(l) for l in lists]
    for i, l in enumerate(lists):
        for v in l:
            c = list(top)
            c[i] = v
            out.add(tuple(c))
    return sorted(out), True


_OTHER = {}


def other_dyn(args):
    """dynamic parameters of a second, unrelated symbolic calldata registered on the same path (as svm.createCalldata does for
    every function of a contract)"""
    from halmos.calldata import FunctionInfo, mk_calldata

    k = id(args)
    if k not in _OTHER:
        sig = "other(bytes,uint256[])"
        abi = {sig: e2e.abi_of(sig)}
        for item in abi[sig]["inputs"]:
            item["name"] = "o" + item["name"]
        _OTHER[k] = mk_calldata(abi, FunctionInfo("C", "other", sig, f"{e2e.sel(sig):08x}"), args)[1]
    return _OTHER[k]


def reader_run(sig, cd, dyn, args, length_offsets, also_register=None, handed_over=False):
    """run `return (calldataload(o1), ..., calldataload(ok))` on the real SEVM with this calldata; returns set of tuples"""
    from halmos.__main__ import mk_block, mk_solver
    from halmos.calldata import FunctionInfo
    from halmos.contract import Contract
    from halmos.sevm import EMPTY_BALANCE, SEVM, CallContext, Message, Path
    from halmos.utils import EVM, con_addr

    items = []
    for i, o in enumerate(length_offsets):
        items += [("push", o), "CALLDATALOAD", ("push", 32 * i), "MSTORE"]
    items += [("push", 32 * len(length_offsets)), "PUSH0", "RETURN"]
    code = Contract.from_hexcode(asm.assemble(items).hex())
    sevm = SEVM(args, FunctionInfo("C", "f", sig, "00000000"))
    solver = mk_solver(args)
    this = con_addr(0xAAAA)
    msg = Message(target=this, caller=con_addr(0xB1), origin=con_addr(0xB1), value=0, data=cd, call_scheme=EVM.CALL)
    path = Path(solver)
    path.process_dyn_params(dyn)
    if also_register is not None:
        path.process_dyn_params(also_register)
    if handed_over:
        # the calldata was created on an earlier path (svm.createCalldata in setUp() or in an earlier transaction of a sequence):
        # the executing path extends that one, as run_message() does
        parent = path
        path = Path(solver)
        path.extend_path(parent)
    ex = sevm.mk_exec(code={this: code}, storage={this: sevm.mk_storagedata()}, transient_storage={this: sevm.mk_storagedata()},
                      balance=EMPTY_BALANCE, block=mk_block(), context=CallContext(message=msg), pgm=code, path=path)
    got = []
    try:
        for e in sevm.run(ex):
            o = e.context.output
            if o.error is not None or o.data is None:
                got.append(("error", type(o.error).__name__, str(o.error)[:80]))
                continue
            d = o.data.unwrap()
            if not isinstance(d, bytes):
                got.append(("symbolic", str(d)[:80]))
                continue
            got.append(tuple(int.from_bytes(d[i : i + 32], "big") for i in range(0, len(d), 32)))
    finally:
        solver.reset()
    return got


def check_signature(acc, types, config, do_reader=True):
    name = f"f({','.join(types)})"
    cfgs = ";".join(f"{k}={v}" for k, v in sorted(config.items())) or "defaults"
    case = {"types": types, "config": config}
    acc.count("signatures")
    try:
        sig, cd, dyn, args = build_calldata(types, config)
    except Exception as e:
        acc.violation(f"build:{name}:{cfgs}", f"{name} [{cfgs}]: mk_calldata raised {type(e).__name__}: {e}", case)
        return
    try:
        atoms = flatten(cd.unwrap())
    except DecodeError as e:
        acc.violation(f"flatten:{name}:{cfgs}", f"{name} [{cfgs}]: {e}", case)
        return
    if len(atoms) != len(cd):
        acc.violation(f"len:{name}:{cfgs}", f"{name} [{cfgs}]: len(calldata)={len(cd)} but it unwraps to {len(atoms)} bytes", case)
        return
    if atoms[:4] != list(e2e.sel(sig).to_bytes(4, "big")):
        acc.violation(f"selector:{name}:{cfgs}", f"{name} [{cfgs}]: calldata does not start with the selector", case)
        return
    body = atoms[4:]
    tys = [parse_type(t) for t in types]
    size_names = [d.size_symbol.decl().name() for d in dyn]
    # the dynamic parameters and their qualified names (p, p[i], p.member), derived here from the ABI item alone: --array-lengths
    # addresses them by these names
    if config.get("_names") != "unnamed":
        mine = sorted(expected_dyn_names(e2e.abi_of(name)["inputs"], config))
        theirs = sorted(d.name for d in dyn)
        if mine != theirs:
            acc.violation(f"names:{name}:{cfgs}", f"{name} [{cfgs}]: the dynamic parameters are named {theirs}; by the ABI item they are {mine} (these names select the --array-lengths entries)", case)
            return
    # candidate lists must be what the configuration says (read here independently of halmos's option parsers)
    for d in dyn:
        want = expected_candidates(d, config)
        if sorted(set(d.size_choices)) != sorted(set(want)):
            acc.violation(f"configured:{name}:{cfgs}", f"{name} [{cfgs}]: the length candidates of {d.name} are {list(d.size_choices)}, the configuration says {want}", case)
            return
    cl, capped = combos(dyn)
    if capped:
        acc.count("capped_signatures")
    length_offsets = None
    for choice in cl:
        acc.count("decodes")
        sizes = dict(zip(size_names, choice))
        dec = Decoder(body, sizes)
        try:
            dec.decode_seq(tys, 0, "", [f"a{i}" for i in range(len(tys))])
        except DecodeError as e:
            acc.violation(f"decode:{name}:{cfgs}", f"{name} [{cfgs}] lengths={sizes}: not a valid ABI encoding: {e}", dict(case, sizes=list(choice)))
            return
        bad = check_decoded(dec, tys)
        if bad:
            acc.violation(f"leaves:{name}:{cfgs}", f"{name} [{cfgs}] lengths={sizes}: {bad}", dict(case, sizes=list(choice)))
            return
        acc.outcome((len(dec.leaves), len(dec.size_syms_seen)))
        if all(c == max(d.size_choices) for c, d in zip(choice, dyn)):
            # with every length at its maximum every size symbol is reached
            seen = {s for s, _ in dec.size_syms_seen}
            if seen != set(size_names):
                acc.violation(f"sizes:{name}:{cfgs}", f"{name} [{cfgs}]: size symbols {sorted(set(size_names) - seen)} are never read as a length word", case)
                return
            length_offsets = [4 + off for _, off in dec.size_syms_seen]
            order = [s for s, _ in dec.size_syms_seen]
    # every configured candidate is explored by the real SEVM
    total = 1
    for d in dyn:
        total *= len(d.size_choices)
    if do_reader and dyn and total <= 64 and length_offsets is not None:
        acc.count("reader_runs")
        try:
            got = reader_run(sig, cd, dyn, args, length_offsets)
        except Exception as e:
            acc.violation(f"reader-crash:{name}:{cfgs}", f"{name} [{cfgs}]: reader program raised {type(e).__name__}: {e}", case)
            return
        by_name = {d.size_symbol.decl().name(): sorted(set(d.size_choices)) for d in dyn}
        want = set(itertools.product(*[by_name[s] for s in order]))
        if set(got) != want or len(got) != len(want):
            acc.violation(f"candidates:{name}:{cfgs}", f"{name} [{cfgs}]: reader paths returned lengths {sorted(set(map(str, got)))[:8]} ({len(got)} paths), expected the product {sorted(want)[:8]} ({len(want)})", case)
            return
        acc.count("reader_paths", len(got))
        # the same with a second symbolic calldata registered on the path afterwards
        if total <= 16:
            acc.count("reader_runs")
            try:
                got2 = reader_run(sig, cd, dyn, args, length_offsets, also_register=other_dyn(args))
            except Exception as e:
                acc.violation(f"reader-crash2:{name}:{cfgs}", f"{name} [{cfgs}]: reader program (two registered calldatas) raised {type(e).__name__}: {e}", case)
                return
            if set(got2) != want or len(got2) != len(want):
                acc.violation(f"candidates2:{name}:{cfgs}", f"{name} [{cfgs}]: with a second symbolic calldata registered on the same path the reader returned lengths {sorted(set(map(str, got2)))[:8]} ({len(got2)} paths), expected the product {sorted(want)[:8]} ({len(want)})", case)
                return
            acc.count("reader_paths", len(got2))
            # the same when the calldata was created on an earlier path that the executing path extends
            acc.count("reader_runs")
            try:
                got3 = reader_run(sig, cd, dyn, args, length_offsets, handed_over=True)
            except Exception as e:
                acc.violation(f"reader-crash3:{name}:{cfgs}", f"{name} [{cfgs}]: reader program (calldata handed over through extend_path) raised {type(e).__name__}: {e}", case)
                return
            if set(got3) != want or len(got3) != len(want):
                acc.violation(f"candidates3:{name}:{cfgs}", f"{name} [{cfgs}]: when the calldata was created on a parent path (extend_path) the reader returned lengths {sorted(set(map(str, got3)))[:8]} ({len(got3)} paths), expected the product {sorted(want)[:8]} ({len(want)})", case)
                return
            acc.count("reader_paths", len(got3))
    acc.state((name, cfgs))


def check_unsupported(acc):
    for t in UNSUPPORTED:
        for wrap in ("{}", "{}[]", "({},uint256)", "uint256,{}"):
            ts = wrap.format(t)
            types = split_top(ts)
            acc.count("unsupported_cases")
            try:
                build_calldata(types, {})
            except Exception:
                continue
            acc.violation(f"unsupported:{ts}", f"f({ts}): unsupported type accepted without an error", {"types": types, "config": {}, "unsupported": True})


NSHARDS = 48


def shards(tier, seed):
    out = [{"kind": "unsupported"}]
    for i in range(NSHARDS):
        out.append({"kind": "sigs", "tier": tier, "i": i, "n": NSHARDS})
    return rotate(out, seed)


def run_shard(shard):
    hdriver.install_logging()
    hdriver.install_uid()
    acc = Acc(max_violations=30)
    if shard["kind"] == "unsupported":
        check_unsupported(acc)
        acc.sample({"unsupported_types": UNSUPPORTED})
        return acc.result()
    k = 0
    for types in signatures("deep" if shard["tier"] == "thorough" else "thorough"):
        for config in CONFIGS:
            k += 1
            if k % shard["n"] != shard["i"]:
                continue
            if "array_lengths" in config and len(types) < 1:
                continue
            check_signature(acc, types, config)
            if len(acc.samples) < 2 and any("[" in t or "(" in t for t in types):
                acc.sample({"signature": f"f({','.join(types)})", "config": config or "defaults"})
    return acc.result()


def coverage(tier, merged):
    c = merged["counts"]
    return {
        "evaluations": c.get("decodes", 0) + c.get("reader_paths", 0) + c.get("unsupported_cases", 0),
        "distinct_nontrivial": len(merged["states"]),
        "signatures_x_configs": c.get("signatures", 0),
        "decodes_per_length_choice": c.get("decodes", 0),
        "reader_runs_on_sevm": c.get("reader_runs", 0),
        "reader_paths": c.get("reader_paths", 0),
        "capped_signatures": c.get("capped_signatures", 0),
        "unsupported_cases": c.get("unsupported_cases", 0),
        "exhaustive": c.get("capped_signatures", 0) == 0,
        "rule": "one evaluation = one (signature, length configuration, choice of candidate lengths) decoded by the independent ABI decoder, or one path of the reader program on the real SEVM; "
                "distinct_nontrivial = distinct (signature, configuration) pairs that decoded correctly for every explored length choice",
    }


def replay(case):
    hdriver.install_logging()
    hdriver.install_uid()
    acc = Acc()
    if case.get("unsupported"):
        check_unsupported(acc)
    else:
        check_signature(acc, case["types"], case["config"])
    v = acc.result()["violations"]
    return {"violated": bool(v), "obs": [x["what"] for x in v][:3], "key": v[0]["key"] if v else ""}
