"""C05 - verdict aggregation is fail-safe and independent of solver timing.

A generated k-path test (k <= 2 quick, <= 3 thorough) whose i-th path ends in a
scripted outcome (success, revert, Panic(1), fail flag, stuck at an unsupported
opcode) is run end to end by the real run_contract / _main against a scripted
external solver whose reply to each path's query is chosen from {sat + model,
sat + abstract model (then the refined query's reply), unsat, unknown, time
limit exceeded, empty output, garbage, non-zero exit with sat, crash}, with and
without --early-exit and --cache-solver, and with every completion order of the
concurrent queries (solver threads = number of queries, replies delayed so that
they finish in each permutation).  The verdict must equal a reference verdict
function of the collection of per-path outcomes alone; the process exit code of
_main is non-zero iff some selected test did not pass.
"""

from __future__ import annotations

import itertools
import json
import os
import sys
import tempfile

from mc import e2e, hdriver
from mc.core import Acc, rotate

ID = "C05"
LEVEL = "model_checking"
ASSUMPTIONS = [
    "reference verdict (DESIGN B.3): sat > 0 => FAIL(1); else err > 0 => ERROR(5); else a stuck path whose confirmation query is not unsat => ERROR(3); else unknown/timeout > 0 => TIMEOUT(2); else no successful path => ERROR(4); else PASS(0)",
    "replies are produced in-process (seam: halmos.solve.PopenFuture is replaced in the harness; the process layer itself is C17's subject) and selected per query by a constant that only that path's constraints contain; `sat` replies carry a model; a reply is `err` when its first line is none of sat/unsat/unknown",
    "completion orders are produced by real solver threads: --solver-threads = number of concurrent queries and per-reply delays 0 / 0.1 / 0.2 s in every permutation; verdicts must not depend on them (under --early-exit a valid counterexample may shut the executor down before the others finish: still FAIL)",
    "a `sleep` reply is a job whose time limit expires: the scripted future raises subprocess.TimeoutExpired (no wall clock in the oracle)",
    "only PASS/non-PASS fail-safety and the precedence FAIL > ERROR > TIMEOUT > ERROR(stuck) > ERROR(revert-all) are asserted",
]

PY = sys.executable
STUB = os.path.join(os.path.dirname(os.path.dirname(os.path.abspath(__file__))), "mc", "solverstub.py")
CONSTS = [0xA1A1A1A1, 0xB2B2B2B2, 0xC3C3C3C3]
OUTCOMES = ["success", "revert", "panic", "failflag", "stuck"]
REPLIES_FULL = ["sat", "sat-abstract:sat", "sat-abstract:unsat", "sat-abstract:unknown", "unsat", "unsat-nocore", "unknown", "sleep:3", "empty", "garbage", "exit1-sat", "crash"]
REPLIES_QUICK = ["sat", "sat-abstract:unsat", "unsat", "unsat-nocore", "unknown", "sleep:3", "garbage", "crash"]
REPLIES_STUCK = ["sat", "unsat", "unknown", "garbage", "sleep:3"]


def outcome_code(o):
    if o == "success":
        return ["STOP"]
    if o == "revert":
        return e2e.revert0()
    if o == "panic":
        return e2e.panic(1)
    if o == "failflag":
        return e2e.ds_fail() + ["STOP"]
    if o == "stuck":
        return [0x0C, "STOP"]
    raise ValueError(o)


def mk_contract(outcomes, default, extra_pass=False):
    X, Y = e2e.arg(0), e2e.arg(1)
    body = []
    for i, o in enumerate(outcomes):
        # x * y == c_i: the query of this path mentions the multiplication abstraction, so a model that interprets it is refined
        body += e2e.if_then(Y + X + ["MUL", ("pushn", 4, CONSTS[i]), "EQ"], outcome_code(o), f"p{i}")
    body += outcome_code(default)
    funcs = {"setUp()": ["STOP"], "check_v(uint256,uint256)": body}
    if extra_pass:
        funcs["check_a()"] = ["STOP"]  # runs before check_v and passes
    return e2e.Contract("V", funcs)


def classify(reply):
    """-> 'sat' | 'unsat' | 'unknown' | 'err' (reference reading of one scripted reply, incl. the refined second reply)"""
    r = reply.split(":", 2)[2] if reply.startswith("delay:") else reply
    if r.startswith("sat-abstract"):
        second = r.split(":", 1)[1]
        return classify(second) if second != "sat" else "sat"
    if r in ("sat", "exit1-sat", "slowsat"):
        return "sat"
    if r in ("unsat", "unsat-nocore"):
        return "unsat"
    if r == "unknown" or r.startswith("sleep"):
        return "unknown"
    return "err"


def reference_verdict(outcomes, default, replies):
    S = sum(o == "success" for o in outcomes) + (default == "success")
    cls = []
    stuck_open = 0
    for o, r in zip(outcomes, replies):
        if o in ("panic", "failflag"):
            cls.append(classify(r))
        elif o == "stuck":
            if classify(r) != "unsat":
                stuck_open += 1
    if "sat" in cls:
        return 1
    if "err" in cls:
        return 5
    # the property: "... otherwise the verdict is FAIL, ERROR or TIMEOUT in that precedence": a stuck path is an ERROR and outranks a timeout
    if stuck_open:
        return 3
    if "unknown" in cls:
        return 2
    if S == 0:
        return 4
    return 0


class ScriptedSolver:
    """in-process replacement of the solver subprocess (seam: halmos.solve.PopenFuture): the reply to a query is chosen by the
    highest-numbered constant that occurs in it; a `sleep` reply is a job whose time limit expires (TimeoutExpired), a
    `delay:<s>:` prefix makes the solving thread wait, so that concurrent queries complete in a chosen order"""

    def __init__(self, replies):
        self.replies = list(replies)
        self.asked = []
        self.built = 0
        self.done = 0

    def in_flight(self):
        """queries built for asynchronous solving whose answer has not been delivered yet"""
        return self.pool is not None and any(not f.done() for f in self.pool)

    pool = None

    complete_sat = 0
    killed = 0

    def answer(self, path, fut=None):
        import subprocess
        import time

        from mc import solverstub

        with open(path) as f:
            text = f.read()
        low = text.lower()
        mode = "unsat"
        for c, m in zip(CONSTS, self.replies):
            if f"{c:08x}" in low or f"(_ bv{c} " in low:
                mode = m
        self.asked.append((os.path.basename(path), mode))
        if mode.startswith("delay:"):
            _, secs, mode = mode.split(":", 2)
            time.sleep(float(secs))
        if mode.startswith("sleep"):
            raise subprocess.TimeoutExpired(["scripted-solver", path], 1)
        if mode == "slowsat":
            # a solver that is still printing its model when --early-exit shuts the executor down: cancel() kills it, and what it had
            # written so far (`sat` and half a model) comes back with return code -15.  Left alone for a second it answers `sat` in full
            t0 = time.time()
            while time.time() - t0 < 1.0 and not (fut is not None and fut.cancelled_by_shutdown):
                time.sleep(0.005)
            if fut is not None and fut.cancelled_by_shutdown:
                self.killed += 1
                full, _ = solverstub.reply("sat", path, text)
                return full[: max(4, len(full) // 2)], "", -15
            mode = "sat"
        if mode == "sat":
            self.complete_sat += 1
        if mode == "spawnfail":
            # the solver binary cannot be started: the job's own exception reaches whoever asked for the result
            raise FileNotFoundError(2, "No such file or directory: 'scripted-solver'")
        if mode == "unsat-nocore":
            # a solver that proves unsat without naming any tracked assertion prints an empty core
            return "unsat\n()\n", "", 0
        out, rc = solverstub.reply(mode, path, text)
        if out.startswith("unsat"):
            # with --cache-solver the query names its assertions: report the whole query as the core, in reverse order (any
            # superset of a minimal core, in any order, is a legitimate answer)
            import re

            ids = re.findall(r":named <([^>]+)>", text)
            if ids:
                out = "unsat\n(" + " ".join(f"<{i}>" for i in reversed(ids)) + ")\n"
        return out, "", rc


def install_solver(solver, sync=False):
    import halmos.__main__ as M
    import halmos.solve as S

    class FakeFuture:
        def __init__(self, cmd, timeout=None):
            self.cmd, self.timeout = cmd, timeout

        def start(self):
            return self

        cancelled_by_shutdown = False

        def result(self, timeout=None):
            return solver.answer(self.cmd[-1], self)

        def cancel(self):
            self.cancelled_by_shutdown = True

        def done(self):
            return True

        def is_running(self):
            return False

    saved = S.PopenFuture
    S.PopenFuture = FakeFuture
    saved_sll = M.solve_low_level

    def solve_low_level_sync(path_ctx):
        # scheduling choice "replies first": the main thread confirms a stuck path only after every earlier query has been
        # answered and its callback has run (bounded wait)
        import time

        t0 = time.time()
        while time.time() - t0 < 1.0 and solver.in_flight():
            time.sleep(0.005)
        return saved_sll(path_ctx)

    if sync:
        M.solve_low_level = solve_low_level_sync

    def restore():
        S.PopenFuture = saved
        M.solve_low_level = saved_sll

    return restore


def companion(kind):
    """a second test contract of the same project (A*: processed before V, Z*: after): its only test passes trivially (`good`), or its
    setUp() reverts, so that its selected test cannot pass (`badsetup`: halmos reports no result for it at all)"""
    pos, what = kind.split("-")
    name = ("A" if pos == "first" else "Z") + what.capitalize()
    setup = ["STOP"] if what == "good" else e2e.revert0()
    return e2e.Contract(name, {"setUp()": setup, "check_c()": ["STOP"]})


COMPANIONS = (None, "first-good", "last-good", "first-badsetup", "last-badsetup")


def run_case(acc, outcomes, default, replies, early, cache, threads, via_main=False, sync=False, latecb=False, comp=None, two=False):
    import halmos.__main__ as M

    solver = ScriptedSolver(replies)
    restore = install_solver(solver, sync)
    if latecb:
        # scheduling choice "callbacks last": the worker thread is preempted between completing a solver future and running its
        # done-callback (which is where the answer is recorded): the verdict must still wait for it
        orig_cb = M.CounterexampleHandler._solve_end_to_end_callback

        def slow_cb(self, future, ex, path_ctx, description):
            import time

            time.sleep(0.25)
            return orig_cb(self, future, ex=ex, path_ctx=path_ctx, description=description)

        M.CounterexampleHandler._solve_end_to_end_callback = slow_cb
        _restore_cb = restore

        def restore():
            M.CounterexampleHandler._solve_end_to_end_callback = orig_cb
            _restore_cb()

    if sync:
        # observe the futures the handler submits (seam: CounterexampleHandler keeps them in submitted_futures)
        orig_handle = M.CounterexampleHandler.handle_assertion_violation

        def handle(self, *a, **kw):
            r = orig_handle(self, *a, **kw)
            solver.pool = self.submitted_futures
            return r

        M.CounterexampleHandler.handle_assertion_violation = handle
        _restore0 = restore

        def restore():
            M.CounterexampleHandler.handle_assertion_violation = orig_handle
            _restore0()

    cmd = "scripted-solver"
    name = f"paths={outcomes}+{default} replies={replies} early={int(early)} cache={int(cache)} threads={threads}{' main' if via_main else ''}{' replies-first' if sync else ''}{' callbacks-last' if latecb else ''}"
    case = {"outcomes": outcomes, "default": default, "replies": replies, "early": early, "cache": cache, "threads": threads, "main": via_main, "sync": sync, "latecb": latecb, "comp": comp}
    if comp:
        name += f" companion={comp}"
    if two:
        name += " after-a-passing-test"
        case["two"] = True
    want = reference_verdict(outcomes, default, replies)
    c = mk_contract(outcomes, default, extra_pass=two)
    try:
        if via_main:
            argv = ["--solver-command", cmd, "--solver-timeout-assertion", "1s", "--solver-threads", str(threads)]
            if early:
                argv.append("--early-exit")
            if cache:
                argv.append("--cache-solver")
            res, out, logs, exc = e2e.run_main([c] + ([companion(comp)] if comp else []), argv=argv)
            acc.count("main_runs")
            if res is None:
                acc.violation(f"main-crash:{name}", f"{name}: _main raised {exc!r}: {out[-300:]}", case)
                return
            code = res.exitcode
            acc.outcome(("main", want, code != 0, comp))
            if comp and comp.endswith("badsetup"):
                if code == 0:
                    acc.violation(f"exitcode:{name}", f"{name}: process exit code 0 although the selected test check_c() of the companion contract did not pass (its setUp() reverts)", case)
                else:
                    acc.state(name)
                return
            if (want != 0) != (code != 0):
                acc.violation(f"exitcode:{name}", f"{name}: process exit code {code}, but the reference verdict of check_v is {want} ({'PASS' if want == 0 else 'not PASS'}){' and the companion test passes' if comp else ''}", case)
            else:
                acc.state(name)
            return
        opts = {"solver_command": cmd, "solver_timeout_assertion": "1s", "solver_threads": threads}
        if early:
            opts["early_exit"] = True
        if cache:
            opts["cache_solver"] = True
        rr = e2e.run_contract(c, options=opts)
    finally:
        restore()
    acc.count("runs")
    if rr.exception is not None or len(rr.results) != 1:
        acc.violation(f"no-result:{name}", f"{name}: no result ({rr.exception!r}) {rr.stdout[-200:]}", case)
        return
    got = rr.results[0].exitcode
    acc.outcome((want, got))
    valid = sum(1 for m in (rr.results[0].models or []) if m.is_valid)
    if "slowsat" in replies and valid > solver.complete_sat:
        acc.violation(f"valid-from-killed:{name}", f"{name}: {valid} counterexample(s) labelled valid, but only {solver.complete_sat} solver run(s) answered `sat` in full "
                      f"({solver.killed} were killed by the early exit while printing their model: their truncated output is not an answer)", case)
        return
    if got == want:
        acc.state(name)
        return
    key_kind = "pass-unsafe" if got == 0 else "precedence"
    # under --early-exit a valid counterexample shuts the executor down: the remaining queries are reported as errors, but the
    # verdict is FAIL in every order; anything else is a disagreement
    acc.violation(f"{key_kind}:{outcomes}+{default}:{[classify(r) for r in replies]}:early={int(early)}:cache={int(cache)}",
                  f"{name}: verdict {got}, reference verdict {want} (per-path reply classes {[classify(r) for r in replies]})", case)


def cases(tier):
    out = []
    R = REPLIES_QUICK if tier == "quick" else REPLIES_FULL
    ks = (1, 2) if tier == "quick" else (1, 2, 3)
    for k in ks:
        for outcomes in itertools.product(OUTCOMES, repeat=k):
            if k == 3 and len(set(outcomes)) == 1 and outcomes[0] in ("success", "revert"):
                continue
            reply_lists = []
            for o in outcomes:
                if o in ("panic", "failflag"):
                    reply_lists.append(R if k < 3 else ["sat", "unsat", "unknown", "garbage"])
                elif o == "stuck":
                    reply_lists.append(REPLIES_STUCK if k < 3 else ["sat", "unsat"])
                else:
                    reply_lists.append(["unsat"])
            for replies in itertools.product(*reply_lists):
                for default in ("success", "revert"):
                    nq = sum(o in ("panic", "failflag") for o in outcomes)
                    flags = [(False, False)]
                    if nq >= 1:
                        flags += [(True, False), (False, True)]
                    if nq >= 2 and tier != "quick":
                        flags += [(True, True)]
                    for early, cache in flags:
                        out.append({"outcomes": list(outcomes), "default": default, "replies": list(replies), "early": early, "cache": cache, "threads": 1, "main": False})
                        if "stuck" in outcomes and nq >= 1:
                            # the other order: every reply is delivered before the main thread confirms the stuck path
                            out.append({"outcomes": list(outcomes), "default": default, "replies": list(replies), "early": early, "cache": cache, "threads": 1, "main": False, "sync": True})
                    # every completion order of the concurrent queries
                    if nq >= 2 and all(not r.startswith("sleep") for r in replies):
                        qidx = [i for i, o in enumerate(outcomes) if o in ("panic", "failflag")]
                        for perm in itertools.permutations(range(nq)):
                            if perm == tuple(range(nq)) and nq == 2:
                                pass
                            rs = list(replies)
                            for rank, qi in zip(perm, qidx):
                                rs[qi] = f"delay:{0.1 * rank}:{replies[qi]}"
                            for early in (False, True):
                                if default == "revert" and not early:
                                    continue
                                out.append({"outcomes": list(outcomes), "default": default, "replies": rs, "early": early, "cache": False, "threads": nq, "main": False})
    # the done-callback of the last query runs late
    for o in ("panic", "failflag"):
        for r in ("sat", "unknown", "garbage", "crash", "unsat"):
            for default in ("success", "revert"):
                for threads in (1, 2):
                    out.append({"outcomes": [o], "default": default, "replies": [r], "early": False, "cache": False, "threads": threads, "main": False, "latecb": True})
        out.append({"outcomes": [o, "success", o], "default": "success", "replies": ["unsat", "unsat", "sat"], "early": False, "cache": False, "threads": 2, "main": False, "latecb": True})
    # process exit code through _main
    for outcomes, replies in ((["panic"], ["sat"]), (["panic"], ["unsat"]), (["panic"], ["unknown"]), (["panic"], ["garbage"]), (["success"], ["unsat"]), (["stuck"], ["unsat"]), (["stuck"], ["sat"]),
                              (["revert"], ["unsat"]), (["failflag"], ["sat"]), (["failflag"], ["crash"]), (["panic", "panic"], ["unsat", "sat"]), (["panic", "stuck"], ["unsat", "unknown"])):
        for default in ("success", "revert"):
            for comp in COMPANIONS:
                out.append({"outcomes": outcomes, "default": default, "replies": replies, "early": False, "cache": False, "threads": 1, "main": True, "comp": comp})
    # --early-exit kills the solvers still running when the first valid counterexample arrives: what a killed solver had printed so far
    # is not an answer (no counterexample may be built from it)
    for outcomes, replies in ((["panic", "panic"], ["sat", "slowsat"]), (["panic", "panic"], ["slowsat", "sat"]), (["failflag", "panic", "panic"], ["slowsat", "sat", "slowsat"])):
        for early in (True, False):
            out.append({"outcomes": outcomes, "default": "success", "replies": replies, "early": early, "cache": False, "threads": len(outcomes), "main": False})
    # a test that ends in an exception (the solver of its stuck-path query cannot be started) / in any other non-PASS way, run right after a
    # passing test of the same contract: the process exit code still says "not all passed"
    for outcomes, replies in ((["stuck"], ["spawnfail"]), (["stuck", "panic"], ["spawnfail", "unsat"]), (["panic"], ["sat"]), (["panic"], ["unknown"]), (["stuck"], ["sat"]), (["success"], ["unsat"])):
        for default in ("success", "revert"):
            out.append({"outcomes": outcomes, "default": default, "replies": replies, "early": False, "cache": False, "threads": 1, "main": True, "two": True})
    return out


NSHARDS = 96


def shards(tier, seed):
    cs = rotate(cases(tier), seed)
    return [{"cases": cs[i::NSHARDS]} for i in range(NSHARDS) if cs[i::NSHARDS]]


def run_shard(shard):
    hdriver.install_logging()
    hdriver.install_uid()
    acc = Acc(max_violations=30)
    for c in shard["cases"]:
        run_case(acc, c["outcomes"], c["default"], c["replies"], c["early"], c["cache"], c["threads"], c["main"], c.get("sync", False), c.get("latecb", False), c.get("comp"), c.get("two", False))
    if shard["cases"]:
        c = shard["cases"][0]
        acc.sample({"paths": c["outcomes"] + [c["default"]], "solver_replies": c["replies"], "early_exit": c["early"], "cache_solver": c["cache"], "reference_verdict": reference_verdict(c["outcomes"], c["default"], c["replies"])})
    return acc.result()


def coverage(tier, merged):
    c = merged["counts"]
    return {
        "states": len(merged["states"]),
        "transitions": c.get("runs", 0) + c.get("main_runs", 0),
        "traces_validated_against_impl": c.get("runs", 0) + c.get("main_runs", 0),
        "end_to_end_runs": c.get("runs", 0),
        "runs_through_main": c.get("main_runs", 0),
        "distinct_verdict_pairs": len(merged["outcomes"]),
        "exhaustive": not merged["capped"],
        "rule": "states = (path outcome vector, solver reply vector, --early-exit, --cache-solver, completion order) combinations whose verdict equalled the reference verdict; transitions = end-to-end executions of run_contract / _main with the scripted solver",
    }


def replay(case):
    hdriver.install_logging()
    hdriver.install_uid()
    acc = Acc()
    run_case(acc, case["outcomes"], case["default"], case["replies"], case["early"], case["cache"], case["threads"], case.get("main", False), case.get("sync", False), case.get("latecb", False), case.get("comp"), case.get("two", False))
    v = acc.result()["violations"]
    return {"violated": bool(v), "obs": [x["what"] for x in v][:3], "key": v[0]["key"] if v else ""}
