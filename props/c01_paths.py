"""C01 - every reported path is a real EVM behaviour.

All programs of the statement grammar up to a length bound are executed once
symbolically by the real SEVM.run; for every input of a finite grid whose
values collide with the constants of the grammar, every reported path whose
constraints hold must claim exactly the outcome of the reference EVM."""

from __future__ import annotations

import itertools

from mc import grammar, hdriver, progcheck
from mc.core import Acc, rotate
from mc.grammar import OUT_BASE

ID = "C01"
LEVEL = "model_checking"
ASSUMPTIONS = [
    "programs: every sequence of <= L statements of the grammar in mc/grammar.py (plus one terminator), both storage layouts for programs that touch storage",
    "inputs: x, y in {0,1,2,32,2^255,2^256-1}, callvalue in {0,1}, caller in a 2-address pool, balances in {0,5,2^100,2^128}; only symbols a program mentions are varied",
    "standard interpretation of keccak and of the f_evm_* abstractions; documented modelling assumptions of halmos (no gas, hash range/injectivity, balances <= 2^128, abstract created addresses) are inputs to the oracle",
    "paths halmos marks as stuck (internal error) make no claim here and are handed to C10",
    "the top-level message does not transfer msg.value (as in halmos's own drivers); reference does the same",
]

THIS, B1, B2, C1 = 0xAAAA, 0xB1, 0xB2, 0xC1
C1_CODE = "602a5f5260205ff3"  # returns the word 0x2a
ALIAS_MARKS = ("EXTCODESIZE', ('x'", "EXTCODEHASH', ('x'", "balance', ('x'", "callx", "create_probe")
NEW_ADDR = 0xAAAA0002  # the address halmos gives the first contract created in a transaction


def uses_alias(stmts):
    r = repr(stmts)
    return any(m in r for m in ALIAS_MARKS)
D = [0, 1, 2, 32, 2**255, 2**256 - 1]


def mentions(stmts, what):
    return what in repr(stmts)


def uses_storage(stmts):
    r = repr(stmts)
    return "sstore" in r or "sload" in r or "tstore" in r or "tload" in r


def mk_spec(stmts, layout="solidity", extra_options=None, with_labels=False):
    code, labels = grammar.build(stmts, with_labels=True)
    sym_caller = mentions(stmts, "'caller'")
    sym_v = mentions(stmts, "'v'")
    sym_bal = (mentions(stmts, "balance") or mentions(stmts, "SELFBALANCE")) and not uses_alias(stmts)
    opts = {"storage_layout": layout}
    opts.update(extra_options or {})
    spec = {
        "accounts": {
            hex(THIS): {"code": code.hex(), "balance": ["sym", "bt"] if sym_bal else 5},
            hex(B1): {"code": "", "balance": ["sym", "b1"] if sym_bal else 7},
        },
        "extra_balances": {hex(B2): 9},
        "target": THIS,
        "caller": ["sym", "caller"] if sym_caller else B1,
        "origin": B1,
        "value": ["sym", "v"] if sym_v else 0,
        "calldata": [["sym", "x", 32], ["sym", "y", 32]],
        "options": opts,
    }
    if uses_alias(stmts):
        spec["accounts"][hex(C1)] = {"code": C1_CODE, "balance": 3}
        spec["alias"] = True
    return (spec, labels) if with_labels else spec


def mk_grid(spec):
    syms = {"x": 256, "y": 256}
    special = {}
    if isinstance(spec["caller"], list):
        syms["caller"] = 160
        special["caller"] = [B1, B2]
    if isinstance(spec["value"], list):
        syms["v"] = 256
        special["v"] = [0, 1]
    if spec.get("alias"):
        special["x"] = D + [THIS, B1, C1, 0xDEAD, (1 << 160) + C1, NEW_ADDR]
    for a in spec["accounts"].values():
        if isinstance(a.get("balance"), list):
            syms[a["balance"][1]] = 256
            special[a["balance"][1]] = [0, 5, 2**100, 2**128]
    return list(hdriver.input_grid(syms, D, special))


def first_diff(issue_detail, labels, outcome=None, ref=None):
    return ""


def observable_of(spec, labels, inputs, path_idx, results):
    """name of the first observable on which path and reference disagree"""
    pr = results[0][path_idx]
    pe = hdriver.PathEval(pr, results[1])
    sat, ok, outcome = pe.run(hdriver.mk_env(inputs))
    ref, _ = hdriver.run_reference(spec, inputs, creates=pr.creates or None)
    if outcome[0] != ref[0]:
        return f"err[{outcome[0]}!={ref[0]}]"
    a, b = outcome[1] or b"", ref[1] or b""
    if a != b:
        if len(a) != len(b):
            return f"datalen[{len(a)}!={len(b)}]"
        for i in range(0, len(a), 32):
            if a[i : i + 32] != b[i : i + 32]:
                if i >= OUT_BASE and outcome[0] is None:
                    k = (i - OUT_BASE) // 32
                    return labels[k] if k < len(labels) else f"out[{k}]"
                return f"mem[{i:#x}]"
    if list(outcome[2]) != list(ref[2]):
        return "logs"
    return "?"


def check_one(acc, stmts, layout, want_coverage=False, extra_options=None):
    spec, labels = mk_spec(stmts, layout, extra_options, with_labels=True)
    grid = mk_grid(spec)
    acc.count("programs")
    try:
        results = hdriver.run_halmos(spec)
    except Exception as e:
        key = f"crash:{type(e).__name__}:{layout}:{grammar.prog_str(stmts)}"
        acc.violation(key, f"halmos raised {type(e).__name__}: {e} on program [{grammar.prog_str(stmts)}] layout={layout}",
                      {"stmts": stmts, "layout": layout, "options": extra_options})
        return None
    issues, stats = progcheck.check_program(spec, grid, want_coverage=want_coverage, results=results)
    acc.count("paths", stats["paths"])
    acc.count("stuck_paths", stats["stuck"])
    acc.count("pairs", stats["pairs"])
    acc.count("inputs", stats["inputs"])
    for o in stats["outcomes"]:
        acc.outcome(o)
    for i in issues:
        if i.kind == "unsound":
            obs = observable_of(spec, labels, i.inputs, i.path, results)
            key = f"unsound:{obs}:{layout}:{grammar.prog_str(stmts)}"
        else:
            key = f"{i.kind}:{layout}:{grammar.prog_str(stmts)}"
        acc.violation(key, f"program [{grammar.prog_str(stmts)}] layout={layout} inputs={fmt_inputs(i.inputs)}: {i.kind}: {i.detail}",
                      {"stmts": stmts, "layout": layout, "inputs": i.inputs, "options": extra_options})
    return stats


def fmt_inputs(inp):
    if not inp:
        return "{}"
    return "{" + ", ".join(f"{k}={v:#x}" for k, v in sorted(inp.items())) + "}"


def bounds(tier):
    # (alphabet, max statements before the optional terminator)
    return [("full", 2)] if tier == "quick" else [("full", 2), ("reduced", 3)]


def enumerate_programs(kind, L, first_idx, tier="quick"):
    """bodies of 1..L statements starting with statement `first_idx`; a terminator is appended to every
    body shorter than L (thorough: also to bodies of length L when L <= 2)"""
    S = grammar.statements(kind)
    T = grammar.TERMINATORS
    first = S[first_idx]
    for n in range(1, L + 1):
        for rest in itertools.product(S, repeat=n - 1):
            body = [first] + list(rest)
            yield body
            if n < L or (tier == "thorough" and L <= 2):
                for t in T:
                    yield body + [t]


def stack_programs():
    """DUP1..16 / SWAP1..16 on stacks of every depth around the required one (incl. underflow), PC, and the block / call environment opcodes"""
    from mc import asm

    def dump(nitems):
        items = []
        for k in range(nitems):
            items += [("push", OUT_BASE + 32 * k), "MSTORE"]
        return items + [("push", 32 * nitems), ("push", OUT_BASE), "RETURN"]

    for n in range(1, 17):
        for depth in (n - 1, n, n + 1, 17):
            if depth < 0:
                continue
            pushes = []
            for k in range(depth):
                pushes += (["PUSH0", "CALLDATALOAD"] if k == 0 else [("push", 0x100 + k)])
            yield f"DUP{n}@{depth}", asm.assemble(pushes + [f"DUP{n}"] + dump(depth + 1))
            if depth >= 1:
                yield f"SWAP{n}@{depth}", asm.assemble(pushes + [f"SWAP{n}"] + dump(depth))
    env = ["ADDRESS", "ORIGIN", "CALLER", "CALLVALUE", "CALLDATASIZE", "CODESIZE", "RETURNDATASIZE", "COINBASE", "TIMESTAMP", "NUMBER", "DIFFICULTY", "GASLIMIT", "CHAINID", "SELFBALANCE", "BASEFEE", "PC", "MSIZE", "PUSH0"]
    for op in env:
        yield op, asm.assemble(["PUSH0", "CALLDATALOAD", "POP", op, op] + dump(2))
    for k in range(0, 4):
        yield f"PC@{k}", asm.assemble(["JUMPDEST"] * k + ["PC"] + dump(1))


def check_stack(acc):
    for name, code in stack_programs():
        spec = {
            "accounts": {hex(THIS): {"code": code.hex(), "balance": 5}, hex(B1): {"code": "", "balance": 7}},
            "target": THIS, "caller": ["sym", "caller"], "origin": B2, "value": ["sym", "v"],
            "calldata": [["sym", "x", 32], ["sym", "y", 32]], "options": {},
        }
        grid = list(hdriver.input_grid({"x": 256, "y": 256, "caller": 160, "v": 256}, [0, 1, 2**256 - 1], {"caller": [B1, B2], "v": [0, 1], "y": [0]}))
        acc.count("programs")
        try:
            results = hdriver.run_halmos(spec)
        except Exception as e:
            acc.violation(f"crash:stack:{name}", f"halmos raised {type(e).__name__}: {e} on stack/environment program {name}", {"stack": name})
            continue
        issues, stats = progcheck.check_program(spec, grid, want_coverage=True, results=results)
        acc.count("paths", stats["paths"])
        acc.count("pairs", stats["pairs"])
        acc.count("inputs", stats["inputs"])
        for o in stats["outcomes"]:
            acc.outcome(o)
        for i in issues[:1]:
            acc.violation(f"{i.kind}:stack:{name}", f"stack/environment program {name} inputs={fmt_inputs(i.inputs)}: {i.kind}: {i.detail[:300]}", {"stack": name, "inputs": i.inputs})
    acc.sample({"stack_and_environment_programs": "DUP1..16 / SWAP1..16 at stack depths n-1 (underflow), n, n+1, 17; 18 environment opcodes; PC at 4 positions"})


def shards(tier, seed):
    out = [{"kind": "stack"}]
    for kind, L in bounds(tier):
        n = len(grammar.statements(kind))
        for i in range(n):
            out.append({"kind": kind, "L": L, "first": i, "tier": tier})
    out.append({"kind": "terminators"})
    return rotate(out, seed)


def layouts_for(stmts):
    return ("solidity", "generic") if uses_storage(stmts) else ("solidity",)


def run_shard(shard, want_coverage=False):
    hdriver.install_logging()
    hdriver.install_uid()
    acc = Acc(max_violations=30)
    if shard["kind"] == "stack":
        check_stack(acc)
        return acc.result()
    if shard["kind"] == "terminators":
        progs = [[t] for t in grammar.TERMINATORS]
        skip_long_terminators = False
    else:
        progs = enumerate_programs(shard["kind"], shard["L"], shard["first"], shard.get("tier", "quick"))
    n = 0
    for stmts in progs:
        for layout in layouts_for(stmts):
            check_one(acc, stmts, layout, want_coverage=want_coverage)
        n += 1
        if n == 7:
            acc.sample({"program": grammar.prog_str(stmts), "layouts": list(layouts_for(stmts)),
                        "inputs_per_program": len(mk_grid(mk_spec(stmts)))})
    return acc.result()


def coverage(tier, merged):
    c = merged["counts"]
    return {
        "states": c.get("programs", 0),
        "transitions": c.get("paths", 0),
        "traces_validated_against_impl": c.get("pairs", 0),
        "programs": c.get("programs", 0),
        "paths_reported": c.get("paths", 0),
        "stuck_paths_skipped": c.get("stuck_paths", 0),
        "inputs_evaluated": c.get("inputs", 0),
        "bounds": [{"alphabet": k, "statements": len(grammar.statements(k)), "max_len": L, "terminators": len(grammar.TERMINATORS)} for k, L in bounds(tier)],
        "exhaustive": not merged["capped"],
        "rule": "states = programs (program prefixes are not merged, the tree is the state graph) x storage layout; transitions = paths reported by SEVM.run; "
                "traces validated = (path, input) pairs whose constraints hold and whose claimed end state was compared with the reference EVM run on the same bytecode",
    }


def replay(case):
    hdriver.install_logging()
    hdriver.install_uid()
    acc = Acc()
    if "stack" in case:
        check_stack(acc)
        v = [x for x in acc.result()["violations"] if case["stack"] in x["key"]]
        return {"violated": bool(v), "obs": [x["what"] for x in v][:3], "key": v[0]["key"] if v else ""}
    stmts = detuple(case["stmts"])
    check_one(acc, stmts, case["layout"], want_coverage=case.get("coverage", False), extra_options=case.get("options"))
    v = acc.result()["violations"]
    return {"violated": bool(v), "obs": [x["what"] for x in v][:3], "key": v[0]["key"] if v else ""}


def detuple(x):
    """json lists -> the tuples the grammar uses (statement bodies stay lists)"""
    if isinstance(x, list):
        return [detuple_stmt(s) for s in x]
    return x


def detuple_stmt(s):
    k = s[0]
    if k in ("if",):
        return ("if", detuple_expr(s[1]), [detuple_stmt(t) for t in s[2]])
    if k == "ifelse":
        return ("ifelse", detuple_expr(s[1]), [detuple_stmt(t) for t in s[2]], [detuple_stmt(t) for t in s[3]])
    if k == "log":
        return ("log", [detuple_expr(t) for t in s[1]], s[2], s[3])
    if k == "raw":
        return ("raw", [tuple(i) if isinstance(i, list) else i for i in s[1]])
    return tuple(detuple_expr(a) if isinstance(a, list) else a for a in s)


def detuple_expr(e):
    if isinstance(e, list):
        return tuple(detuple_expr(a) for a in e)
    return e
