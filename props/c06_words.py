"""C06 - word-level instruction semantics are exact and total.

Three exhaustive sweeps on the real code:
  run   one-instruction programs through SEVM.run with every combination of operand
        representation (concrete PUSH, calldata-symbolic, symbolic Bool-typed, concrete
        Bool-typed) over the 256-bit boundary grid W, compared with the reference EVM;
  grid8 complete 8-bit (and 4-bit ternary) operand grids through the width-generic
        HalmosBitVec methods in concrete / symbolic / mixed representation;
  guard the concrete fast paths that can blow up (EXP) run in a forked child under an
        alarm: 'promptly and without an internal exception'.
"""

from __future__ import annotations

import itertools
import os
import signal
import time

from mc import asm, hdriver, progcheck
from mc.core import Acc, rotate
from mc.symeval import Program, evm_sdiv, evm_srem, evm_udiv, evm_urem, to_signed

ID = "C06"
LEVEL = "exploration"
ASSUMPTIONS = [
    "256-bit operands range over the boundary grid W (and W plus small indices for BYTE/SIGNEXTEND/shift amounts); complete grids are at 8 bits (4 bits for ADDMOD/MULMOD) where the methods are width-generic",
    "symbolic results are evaluated under the exact definitions of f_evm_bv{udiv,urem,sdiv,srem,mul}_N and f_evm_exp_N (x/0 = x%0 = 0)",
    "universality over all 2^512 operand pairs at 256 bits (an SMT validity proof) is a different technique and is not claimed",
    "promptness: a single concrete word operation must finish within 3 s in a child process with a 4 GiB address-space limit",
]

W = [0, 1, 2, 3, 31, 32, 33, 255, 256, 2**16, 2**128, 2**255 - 1, 2**255, 2**255 + 1, 2**256 - 2, 2**256 - 1]
W_IDX = sorted(set(W + [4, 30, 34, 257]))
W_MORE = sorted(set(W + [5, 7, 8, 15, 16, 17, 63, 64, 65, 127, 128, 129, 2**64, 2**128 - 1, 2**160, 2**254, 2**256 - 3]))
W3 = [0, 1, 2, 3, 2**128, 2**255, 2**256 - 2, 2**256 - 1]

BIN = ["ADD", "MUL", "SUB", "DIV", "SDIV", "MOD", "SMOD", "EXP", "SIGNEXTEND", "LT", "GT", "SLT", "SGT", "EQ",
       "AND", "OR", "XOR", "BYTE", "SHL", "SHR", "SAR"]
UN = ["ISZERO", "NOT"]
TER = ["ADDMOD", "MULMOD"]
IDX_FIRST = {"BYTE", "SIGNEXTEND", "SHL", "SHR", "SAR"}

TAIL = ["PUSH0", "MSTORE", ("push", 32), "PUSH0", "RETURN"]


def operand_code(i, src):
    k = src[0]
    if k == "con":
        return [("push", src[1])]
    if k == "sym":
        return [("push", 32 * i), "CALLDATALOAD"]
    if k == "bool":  # symbolic Bool-typed: word_i < 5
        return [("push", 5), ("push", 32 * i), "CALLDATALOAD", "LT"]
    if k == "cbool":  # concrete Bool-typed
        return [("push", 5), ("push", 3 if src[1] else 7), "LT"]
    raise ValueError(src)


def program(op, srcs):
    items = []
    for i in reversed(range(len(srcs))):
        items += operand_code(i, srcs[i])
    items.append(op)
    return asm.assemble(items + TAIL)


def spec_for(code, nwords):
    return {
        "accounts": {"0xaaaa": {"code": code.hex(), "balance": None}},
        "target": 0xAAAA, "caller": 0xBBBB, "origin": 0xBBBB, "value": 0,
        "calldata": [["sym", "xyz"[i], 32] for i in range(nwords)],
    }


def src_variants(kind, dom):
    if kind == "con":
        return [("con", v) for v in dom]
    if kind == "cbool":
        return [("cbool", True), ("cbool", False)]
    return [(kind,)]


def run_cases(op, arity, tier):
    """yields (srcs tuple, input grid)"""
    wa = (W_MORE if tier == "thorough" else W)
    wi = sorted(set(W_IDX + (W_MORE if tier == "thorough" else [])))
    kinds = ["con", "sym", "bool", "cbool"]
    if arity == 3:
        w3 = W if tier == "thorough" else W3
        for ks in itertools.product(kinds, repeat=3):
            ncon = ks.count("con")
            doms = []
            for i, k in enumerate(ks):
                doms.append(src_variants(k, w3 if ncon >= 2 else W))
            for srcs in itertools.product(*doms):
                yield srcs
        return
    for ks in itertools.product(kinds, repeat=arity):
        doms = []
        for i, k in enumerate(ks):
            dom = wi if (i == 0 and op in IDX_FIRST) else wa
            doms.append(src_variants(k, dom))
        for srcs in itertools.product(*doms):
            yield srcs


def grid_for(op, srcs, tier):
    syms, special = {}, {}
    wa = (W_MORE if tier == "thorough" else W)
    wi = sorted(set(W_IDX + (W_MORE if tier == "thorough" else [])))
    n = len(srcs)
    for i, s in enumerate(srcs):
        name = "xyz"[i]
        syms[name] = 256
        if s[0] in ("sym", "bool"):
            special[name] = wi if (i == 0 and op in IDX_FIRST) else (W if n == 3 else wa)
        else:
            special[name] = [0]
    return list(hdriver.input_grid(syms, W, special))


class Timeout(Exception):
    pass


def _alarm(signum, frame):
    raise Timeout()


def guarded(fn, seconds=3, mem_gib=4):
    """run fn() in a forked child under an alarm and an address-space limit.
    returns ('ok', repr) | ('killed', signal) | ('exc', text)"""
    r, w = os.pipe()
    pid = os.fork()
    if pid == 0:
        try:
            os.close(r)
            import resource

            resource.setrlimit(resource.RLIMIT_AS, (mem_gib << 30, mem_gib << 30))
            signal.signal(signal.SIGALRM, signal.SIG_DFL)
            signal.alarm(seconds)
            try:
                out = "ok:" + repr(fn())
            except BaseException as e:  # noqa
                out = f"exc:{type(e).__name__}: {e}"
            os.write(w, out.encode()[:4000])
        finally:
            os._exit(0)
    os.close(w)
    data = b""
    while True:
        chunk = os.read(r, 65536)
        if not chunk:
            break
        data += chunk
    os.close(r)
    _, status = os.waitpid(pid, 0)
    if os.WIFSIGNALED(status):
        return ("killed", os.WTERMSIG(status))
    text = data.decode(errors="replace")
    if text.startswith("ok:"):
        return ("ok", text[3:])
    return ("exc", text[4:])


def check_run(acc, op, srcs, tier, options=None):
    code = program(op, srcs)
    nwords = len(srcs)
    spec = spec_for(code, nwords)
    if options:
        spec["options"] = dict(options)
    grid = grid_for(op, srcs, tier)
    risky = op == "EXP" and srcs[0][0] in ("con", "cbool") and srcs[1][0] == "con" and srcs[1][1] > 4096
    case = {"kind": "run", "op": op, "srcs": [list(s) for s in srcs], "tier": tier, "options": options}
    key = f"run:{op}{':' + str(sorted(options.items())) if options else ''}:" + ",".join(s[0] + (f"={s[1]:#x}" if len(s) > 1 and not isinstance(s[1], bool) else (f"={s[1]}" if len(s) > 1 else "")) for s in srcs)
    acc.count("programs")
    if risky:
        def fn():
            issues, stats = progcheck.check_program(spec, grid)
            return [(i.kind, i.detail, i.inputs) for i in issues], stats["stuck"], stats["pairs"]
        res = guarded(fn)
        acc.count("guarded")
        if res[0] == "killed":
            acc.violation(key, f"{op} with operands {srcs}: not prompt (child killed by signal {res[1]} after 3 s)", case)
            return
        if res[0] == "exc":
            acc.violation(key, f"{op} with operands {srcs}: {res[1][:300]}", case)
            return
        issues_l, stuck, pairs = eval(res[1], {"__builtins__": {}}, {})
        acc.count("evaluations", pairs)
        if stuck:
            acc.violation(key, f"{op} with operands {srcs}: path stuck (not total)", case)
        for kind, detail, inputs in issues_l[:1]:
            acc.violation(key, f"{op} with operands {srcs} inputs {inputs}: {kind}: {detail}", case)
        return
    old = signal.signal(signal.SIGALRM, _alarm)
    signal.alarm(20)
    try:
        issues, stats = progcheck.check_program(spec, grid)
    except Timeout:
        acc.violation(key, f"{op} with operands {srcs}: not prompt (> 20 s)", case)
        return
    finally:
        signal.alarm(0)
        signal.signal(signal.SIGALRM, old)
    acc.count("evaluations", stats["pairs"])
    for o in stats["outcomes"]:
        acc.outcome((op, o))
    if stats.get("crash"):
        acc.violation(key, f"{op} with operands {srcs}: halmos raised: {issues[0].detail}", case)
        return
    if stats["stuck"]:
        info = stats.get("info", {})
        acc.violation(key, f"{op} with operands {srcs}: a path is stuck on an internal error (semantics not total)", case)
        return
    for i in issues[:1]:
        acc.violation(key, f"{op} with operands {srcs} inputs {i.inputs}: {i.kind}: {i.detail}", case)


# ---------------------------------------------------------------------------
# 8-bit complete grids through the methods
# ---------------------------------------------------------------------------


def ref_op(name, a, b, w):
    m = (1 << w) - 1
    if name == "add":
        return (a + b) & m
    if name == "sub":
        return (a - b) & m
    if name == "mul":
        return (a * b) & m
    if name == "div":
        return evm_udiv(a, b, w)
    if name == "sdiv":
        return evm_sdiv(a, b, w)
    if name == "mod":
        return evm_urem(a, b, w)
    if name == "smod":
        return evm_srem(a, b, w)
    if name == "exp":
        return pow(a, b, 1 << w)
    if name == "lshl":  # a << b
        return 0 if b >= w else (a << b) & m
    if name == "lshr":
        return 0 if b >= w else a >> b
    if name == "ashr":
        return (to_signed(a, w) >> min(b, w)) & m
    if name == "bitwise_and":
        return a & b
    if name == "bitwise_or":
        return a | b
    if name == "bitwise_xor":
        return a ^ b
    if name == "ult":
        return int(a < b)
    if name == "ugt":
        return int(a > b)
    if name == "ule":
        return int(a <= b)
    if name == "uge":
        return int(a >= b)
    if name == "slt":
        return int(to_signed(a, w) < to_signed(b, w))
    if name == "sgt":
        return int(to_signed(a, w) > to_signed(b, w))
    if name == "eq":
        return int(a == b)
    raise ValueError(name)


GRID_OPS = ["add", "sub", "mul", "div", "sdiv", "mod", "smod", "exp", "lshl", "lshr", "ashr", "bitwise_and",
            "bitwise_or", "bitwise_xor", "ult", "ugt", "ule", "uge", "slt", "sgt", "eq"]


def call_method(name, x, y, w):
    import z3
    from halmos.bitvec import HalmosBitVec as BV

    def fn(nm):
        return z3.Function(nm, z3.BitVecSort(w), z3.BitVecSort(w), z3.BitVecSort(w))

    if name == "mul":
        return x.mul(y, abstraction=fn(f"f_evm_bvmul_{w}"))
    if name == "div":
        return x.div(y, abstraction=fn(f"f_evm_bvudiv_{w}"))
    if name == "sdiv":
        return x.sdiv(y, abstraction=fn(f"f_evm_bvsdiv_{w}"))
    if name == "mod":
        return x.mod(y, abstraction=fn(f"f_evm_bvurem_{w}"))
    if name == "smod":
        return x.smod(y, abstraction=fn(f"f_evm_bvsrem_{w}"))
    if name == "exp":
        return x.exp(y, exp_abstraction=fn(f"f_evm_exp_{w}"), mul_abstraction=fn(f"f_evm_bvmul_{w}"), smt_exp_by_const=2)
    return getattr(x, name)(y)


def result_term(r, w):
    """halmos result -> ('int', v) | ('term', z3 bv term of width w or bool)"""
    from halmos.bitvec import HalmosBitVec, HalmosBool
    import z3

    if isinstance(r, HalmosBool):
        if r.is_concrete:
            return ("int", int(bool(r)))
        return ("term", z3.If(r.as_z3(), z3.BitVecVal(1, w), z3.BitVecVal(0, w)))
    if isinstance(r, HalmosBitVec):
        if r.size != w:
            return ("badsize", r.size)
        if r.is_concrete:
            return ("int", r.value)
        return ("term", r.as_z3())
    return ("badtype", type(r).__name__)


def check_grid8(acc, name, w=8):
    import z3
    from halmos.bitvec import HalmosBitVec as BV

    N = 1 << w
    a_sym, b_sym = z3.BitVec("a", w), z3.BitVec("b", w)
    case = {"kind": "grid", "op": name, "w": w}

    def bad(rep, a, b, got, want):
        acc.violation(f"grid{w}:{name}:{rep}", f"{name} at {w} bits, operands ({a},{b}) as {rep}: got {got} expected {want}",
                      dict(case, rep=rep, a=a, b=b))

    # concrete x concrete
    for a in range(N):
        xa = BV(a, size=w)
        for b in range(N):
            acc.count("evaluations")
            try:
                kind, v = result_term(call_method(name, xa, BV(b, size=w), w), w)
            except Exception as e:
                bad("con,con", a, b, f"{type(e).__name__}: {e}", ref_op(name, a, b, w))
                return
            if kind != "int" or v != ref_op(name, a, b, w):
                bad("con,con", a, b, (kind, v), ref_op(name, a, b, w))
                return
    # symbolic x symbolic
    try:
        kind, t = result_term(call_method(name, BV(a_sym), BV(b_sym), w), w)
        if kind == "term":
            prog = Program([t])
        for a in range(N):
            for b in range(N):
                acc.count("evaluations")
                v = t if kind == "int" else prog.run({"a": a, "b": b})[0]
                if kind not in ("int", "term") or v != ref_op(name, a, b, w):
                    bad("sym,sym", a, b, v, ref_op(name, a, b, w))
                    return
    except Exception as e:
        bad("sym,sym", None, None, f"{type(e).__name__}: {e}", "a value")
        return
    # mixed
    for a in range(N):
        for rep in ("con,sym", "sym,con"):
            try:
                if rep == "con,sym":
                    kind, t = result_term(call_method(name, BV(a, size=w), BV(b_sym), w), w)
                else:
                    kind, t = result_term(call_method(name, BV(a_sym), BV(a, size=w), w), w)
                prog = Program([t]) if kind == "term" else None
                for b in range(N):
                    acc.count("evaluations")
                    if rep == "con,sym":
                        want = ref_op(name, a, b, w)
                        v = t if kind == "int" else prog.run({"b": b})[0]
                        ops = (a, b)
                    else:
                        want = ref_op(name, b, a, w)
                        v = t if kind == "int" else prog.run({"a": b})[0]
                        ops = (b, a)
                    if kind not in ("int", "term") or v != want:
                        bad(rep, ops[0], ops[1], v, want)
                        return
            except Exception as e:
                bad(rep, a, None, f"{type(e).__name__}: {e}", "a value")
                return
    acc.outcome(("grid", name))


def check_grid_ternary(acc, name, w=4):
    import z3
    from halmos.bitvec import HalmosBitVec as BV

    N = 1 << w
    case = {"kind": "grid3", "op": name, "w": w}
    syms = [z3.BitVec(n, w) for n in "abc"]

    def call(x, y, m):
        if name == "addmod":
            ab = z3.Function(f"f_evm_bvurem_{w + 8}", z3.BitVecSort(w + 8), z3.BitVecSort(w + 8), z3.BitVecSort(w + 8))
            return x.addmod(y, m, abstraction=ab)
        mm = z3.Function(f"f_evm_bvmul_{2 * w}", z3.BitVecSort(2 * w), z3.BitVecSort(2 * w), z3.BitVecSort(2 * w))
        md = z3.Function(f"f_evm_bvurem_{2 * w}", z3.BitVecSort(2 * w), z3.BitVecSort(2 * w), z3.BitVecSort(2 * w))
        return x.mulmod(y, m, mul_abstraction=mm, mod_abstraction=md)

    def ref(a, b, m):
        if m == 0:
            return 0
        return ((a + b) if name == "addmod" else (a * b)) % m

    for mask in range(8):  # which operands are symbolic
        sym_pos = [i for i in range(3) if mask >> i & 1]
        con_pos = [i for i in range(3) if not (mask >> i & 1)]
        for con_vals in itertools.product(range(N), repeat=len(con_pos)):
            ops = [None] * 3
            for i, v in zip(con_pos, con_vals):
                ops[i] = BV(v, size=w)
            for i in sym_pos:
                ops[i] = BV(syms[i])
            rep = "".join("s" if i in sym_pos else "c" for i in range(3))
            try:
                kind, t = result_term(call(*ops), w)
                prog = Program([t]) if kind == "term" else None
            except Exception as e:
                acc.violation(f"grid{w}:{name}:{rep}", f"{name} at {w} bits rep {rep} concrete operands {con_vals}: {type(e).__name__}: {e}",
                              dict(case, rep=rep, con=list(con_vals)))
                return
            for sym_vals in itertools.product(range(N), repeat=len(sym_pos)):
                acc.count("evaluations")
                vals = [None] * 3
                for i, v in zip(con_pos, con_vals):
                    vals[i] = v
                for i, v in zip(sym_pos, sym_vals):
                    vals[i] = v
                env = {"abc"[i]: vals[i] for i in sym_pos}
                v = t if kind == "int" else prog.run(env)[0]
                if kind not in ("int", "term") or v != ref(*vals):
                    acc.violation(f"grid{w}:{name}:{rep}", f"{name} at {w} bits operands {vals} rep {rep}: got {v} expected {ref(*vals)}",
                                  dict(case, rep=rep, vals=vals))
                    return
    acc.outcome(("grid3", name))


# ---------------------------------------------------------------------------
# sharding
# ---------------------------------------------------------------------------


def shards(tier, seed):
    out = []
    for op in BIN:
        out.append({"kind": "run", "op": op, "arity": 2, "tier": tier})
    for op in UN:
        out.append({"kind": "run", "op": op, "arity": 1, "tier": tier})
    for op in TER:
        for first in ("con", "sym", "bool", "cbool"):
            out.append({"kind": "run", "op": op, "arity": 3, "tier": tier, "first": first})
    out.append({"kind": "expopt", "tier": tier})
    for name in GRID_OPS:
        out.append({"kind": "grid8", "op": name})
    for name in ("addmod", "mulmod"):
        out.append({"kind": "grid3", "op": name, "w": 4})
    return rotate(out, seed)


def run_shard(shard):
    hdriver.install_logging()
    hdriver.install_uid()
    acc = Acc(max_violations=10)
    if shard["kind"] == "run":
        op = shard["op"]
        n = 0
        for srcs in run_cases(op, shard["arity"], shard["tier"]):
            if "first" in shard and srcs[0][0] != shard["first"]:
                continue
            check_run(acc, op, srcs, shard["tier"])
            n += 1
            if n == 3:
                acc.sample({"op": op, "operands": [list(map(str, s)) for s in srcs], "program": asm.disasm(program(op, srcs))})
    elif shard["kind"] == "expopt":
        # EXP with a constant exponent is unrolled into multiplications up to --smt-exp-by-const (default 2): every setting of the
        # option x every exponent around it, symbolic and boolean-typed bases
        for k in (0, 1, 2, 3, 4, 5, 8):
            for n in (0, 1, 2, 3, 4, 5, 7, 8, 9):
                for base in (("sym",), ("bool",)):
                    check_run(acc, "EXP", [base, ("con", n)], shard["tier"], {"smt_exp_by_const": k})
        acc.sample({"op": "EXP", "smt_exp_by_const": [0, 1, 2, 3, 4, 5, 8], "exponents": [0, 1, 2, 3, 4, 5, 7, 8, 9]})
    elif shard["kind"] == "grid8":
        check_grid8(acc, shard["op"], 8)
        acc.sample({"grid": "8-bit complete", "method": shard["op"], "reps": ["con,con", "sym,sym", "con,sym", "sym,con"]})
    else:
        check_grid_ternary(acc, shard["op"], shard["w"])
    return acc.result()


def coverage(tier, merged):
    c = merged["counts"]
    return {
        "evaluations": c.get("evaluations", 0),
        "distinct_nontrivial": c.get("programs", 0) + len(GRID_OPS) * 4 + 16,
        "programs": c.get("programs", 0),
        "guarded_children": c.get("guarded", 0),
        "rule": "evaluations = (program, input) pairs compared with the reference EVM plus (method, representation, operand tuple) "
                "cases of the complete 8-bit / 4-bit grids; distinct = one-instruction programs (opcode x operand representation x "
                "concrete operand values over W) plus (method, representation) grids; every case is non-trivial: it exercises one "
                "dispatch/fast-path combination and is compared with an independent Python-int reference",
        "exhaustive": not merged["capped"],
        "W": [hex(v) for v in (W_MORE if tier == "thorough" else W)],
    }


def replay(case):
    hdriver.install_logging()
    hdriver.install_uid()
    acc = Acc()
    if case["kind"] == "run":
        srcs = tuple(tuple(s) for s in case["srcs"])
        check_run(acc, case["op"], srcs, case.get("tier", "quick"), case.get("options"))
    elif case["kind"] == "grid":
        check_grid8(acc, case["op"], case["w"])
    else:
        check_grid_ternary(acc, case["op"], case["w"])
    r = acc.result()
    v = r["violations"]
    return {"violated": bool(v), "obs": [x["what"] for x in v][:3], "key": v[0]["key"] if v else ""}
