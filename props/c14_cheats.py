"""C14 - prank, state-setting cheatcodes and fresh symbols behave as specified.

 prank   every sequence (bounded length) over {prank(a), prank(a,o), startPrank(a), startPrank(a,o), stopPrank(), prank(x) with a
         symbolic address, CALL / STATICCALL to an observer that itself calls a second observer, CREATE of an observer, a cheatcode
         call in between, a call to a helper frame that issues its own prank}: every observed (msg.sender, tx.origin) must equal the
         Foundry prank state machine of mc/refcheats.py.
 state   deal, store/load, etch, warp, roll, fee, chainId, coinbase, difficulty with concrete and symbolic arguments, issued from the
         root or from a nested frame, followed by every relevant read in the same frame and in another frame, on the targeted account
         and on another one.
 fresh   svm.create* / vm.random*: every bit width 1..256, byte sizes {0,1,31,32,33,65}, min/max pairs over boundary words: the
         returned value has the requested width, extension, range and ABI layout, for every value of the fresh symbol(s) in a grid,
         and two results are independent (every pair of values occurs).
All programs run on the real SEVM.run and are compared with the reference EVM + cheatcode model for every input.
"""

from __future__ import annotations

import itertools

import z3

from mc import asm, e2e, hdriver, progcheck, refcheats
from mc.core import Acc, rotate

ID = "C14"
LEVEL = "model_checking"
ASSUMPTIONS = [
    "reference: Foundry's prank rules as the per-frame state machine of mc/refcheats.py (prank over an active prank is an error; a prank applies to the next CALL/STATICCALL/CREATE made by the pranking frame to a non-cheatcode address; nested frames and cheatcode calls do not consume it)",
    "DELEGATECALL/CALLCODE under a prank and calls to the console address are outside the alphabet (Foundry's behaviour cannot be confirmed offline)",
    "state cheatcodes: values written are read back through the corresponding opcode in the same and in another frame; vm.store on a non-existent account and cheatcodes issued from frames that later revert are outside the alphabet",
    "vm.addr: keys over {1,2,5,6,n-1} (valid secp256k1 keys; halmos leaves invalid keys unspecified), addresses computed by the pure-python curve arithmetic of mc/secp.py (checked against the known address of key 1); vm.sign is outside the alphabet",
    "fresh symbols: the value returned is compared with the reference `next value of an input tape, truncated / sign-extended / range-checked as the type says` for every tape value of a grid; padding bytes after dynamic content are not compared",
]

ROOT, O1, O2, H, A1, A2, OR1, OR2, A3 = 0xA0, 0xB1, 0xB2, 0xB3, 0x1111, 0x2222, 0x3333, 0x4444, 0x5555
OB = 0xB4  # observer that returns on two different paths depending on its calldata word
OUT = 0x400


def w32(v):
    return (v % 2**256).to_bytes(32, "big")


def observer2():
    """returns (CALLER, ORIGIN)"""
    return ["CALLER", "PUSH0", "MSTORE", "ORIGIN", ("push", 32), "MSTORE", ("push", 64), "PUSH0", "RETURN"]


def observer1():
    """returns (CALLER, ORIGIN, O2's CALLER, O2's ORIGIN)"""
    return ["CALLER", "PUSH0", "MSTORE", "ORIGIN", ("push", 32), "MSTORE",
            ("push", 64), ("push", 64), "PUSH0", "PUSH0", "PUSH0", ("push", O2), ("push", 0xFFFF), "CALL", "POP",
            ("push", 128), "PUSH0", "RETURN"]


def observer_branchy():
    """returns (CALLER, ORIGIN) -- on one of two paths, chosen by the calldata word (so a symbolic word makes the callee return twice)"""
    return ["PUSH0", "CALLDATALOAD", ("ref", "alt"), "JUMPI"] + observer2() + [("label", "alt")] + observer2()


def observer_init():
    """init code whose deployed runtime is the 64 bytes (CALLER, ORIGIN) seen by the constructor"""
    return ["CALLER", "PUSH0", "MSTORE", "ORIGIN", ("push", 32), "MSTORE", ("push", 64), "PUSH0", "RETURN"]


def helper():
    """a nested frame that issues its own prank(A3) and calls O1; returns O1's 4 words"""
    return e2e.vm("prank(address)", [("push", A3)]) + [("push", 128), "PUSH0", "PUSH0", "PUSH0", "PUSH0", ("push", O1), ("push", 0xFFFF), "CALL", "POP", ("push", 128), "PUSH0", "RETURN"]


class Prog:
    def __init__(self):
        self.items = []
        self.nout = 0
        self.datas = []

    def out_from_mem(self, src, nwords):
        for i in range(nwords):
            self.items += [("push", src + 32 * i), "MLOAD", ("push", OUT + 32 * self.nout), "MSTORE"]
            self.nout += 1

    def out_top(self):
        self.items += [("push", OUT + 32 * self.nout), "MSTORE"]
        self.nout += 1

    def finish(self):
        return asm.assemble(self.items + [("push", 32 * self.nout), ("push", OUT), "RETURN"] + self.datas)


X = ["PUSH0", "CALLDATALOAD"]
Y = [("push", 32), "CALLDATALOAD"]

PRANK_LETTERS = ["prank(a)", "prank(a,o)", "start(a)", "start(a,o)", "stop", "prank(x)", "call", "static", "create", "cheat", "helper", "branchy", "eoa"]
EOA = 0xE0AE  # an account without code


def emit_prank_letter(p, l, k):
    if l == "prank(a)":
        p.items += e2e.vm("prank(address)", [("push", A1)])
    elif l == "prank(a,o)":
        p.items += e2e.vm("prank(address,address)", [("push", A1)], [("push", OR1)])
    elif l == "start(a)":
        p.items += e2e.vm("startPrank(address)", [("push", A2)])
    elif l == "start(a,o)":
        p.items += e2e.vm("startPrank(address,address)", [("push", A2)], [("push", OR2)])
    elif l == "stop":
        p.items += e2e.vm("stopPrank()")
    elif l == "prank(x)":
        p.items += e2e.vm("prank(address)", X)
    elif l in ("call", "static"):
        p.items += [("push", 128), ("push", 0x200), "PUSH0", "PUSH0"] + (["PUSH0"] if l == "call" else []) + [("push", O1), ("push", 0xFFFF), "CALL" if l == "call" else "STATICCALL"]
        p.out_top()
        p.out_from_mem(0x200, 4)
    elif l == "create":
        init = asm.assemble(observer_init())
        name = f"init{k}"
        p.datas.append(("data", name, init))
        p.items += [("sizeof", name), ("offsetof", name), ("push", 0x300), "CODECOPY", ("sizeof", name), ("push", 0x300), "PUSH0", "CREATE"]
        # read the runtime code (CALLER, ORIGIN seen by the constructor) of the created account
        p.items += [("push", 64), "PUSH0", ("push", 0x200), "DUP4", "EXTCODECOPY", "ISZERO", "ISZERO"]
        p.out_top()
        p.out_from_mem(0x200, 2)
    elif l == "branchy":
        # forward x: the callee returns on two paths, and each resumes this frame with its own copy of the prank state
        p.items += X + [("push", 0x1E0), "MSTORE", ("push", 64), ("push", 0x200), ("push", 32), ("push", 0x1E0), "PUSH0", ("push", OB), ("push", 0xFFFF), "CALL"]
        p.out_top()
        p.out_from_mem(0x200, 2)
    elif l == "cheat":
        p.items += e2e.vm("deal(address,uint256)", [("push", 0x99)], [("push", 1)])
    elif l == "eoa":
        # a call to an account without code is a call: it uses up a one-shot prank (nothing observes the sender, the next call does)
        p.items += ["PUSH0", "PUSH0", "PUSH0", "PUSH0", "PUSH0", ("push", EOA), ("push", 0xFFFF), "CALL"]
        p.out_top()
    elif l == "helper":
        p.items += [("push", 128), ("push", 0x200), "PUSH0", "PUSH0", "PUSH0", ("push", H), ("push", 0xFFFF), "CALL"]
        p.out_top()
        p.out_from_mem(0x200, 4)
    else:
        raise ValueError(l)


def base_accounts(root_code):
    return {
        hex(ROOT): {"code": root_code.hex(), "balance": 10},
        hex(O1): {"code": asm.assemble(observer1()).hex(), "balance": 0},
        hex(O2): {"code": asm.assemble(observer2()).hex(), "balance": 0},
        hex(H): {"code": asm.assemble(helper()).hex(), "balance": 0},
        hex(OB): {"code": asm.assemble(observer_branchy()).hex(), "balance": 0},
    }


def prank_spec(seq):
    p = Prog()
    for k, l in enumerate(seq):
        emit_prank_letter(p, l, k)
    return {
        "accounts": base_accounts(p.finish()), "target": ROOT, "caller": 0xE0A, "origin": 0xE0B, "value": 0,
        "calldata": [["sym", "x", 32]], "options": {}, "cheats": True,
    }


PGRID = [{"x": v} for v in (0, A1, ROOT, O1, 2**160 + A1)]


def useful(seq):
    """sequences with at least one observation after a prank-family letter"""
    obs = [i for i, l in enumerate(seq) if l in ("call", "static", "create", "helper", "branchy")]
    pr = [i for i, l in enumerate(seq) if l not in ("call", "static", "create", "helper", "cheat", "branchy", "eoa")]
    return bool(obs) and bool(pr) and min(pr) < max(obs)


def prank_sequences(tier):
    L = 4 if tier == "thorough" else 3
    for n in range(2, L + 1):
        for seq in itertools.product(PRANK_LETTERS, repeat=n):
            if not useful(seq):
                continue
            if n == 4 and tier == "thorough" and seq.count("helper") + seq.count("create") > 2:
                continue
            yield list(seq)


# ---------------------------------------------------------------------------
# state cheatcodes
# ---------------------------------------------------------------------------

T1, T2 = 0xC1, 0xC2  # accounts with a getter: returns (SLOAD(calldata word), SELFBALANCE, TIMESTAMP, NUMBER, BASEFEE, CHAINID, COINBASE, DIFFICULTY)


def getter():
    ops = [["PUSH0", "CALLDATALOAD", "SLOAD"], ["SELFBALANCE"], ["TIMESTAMP"], ["NUMBER"], ["BASEFEE"], ["CHAINID"], ["COINBASE"], ["DIFFICULTY"]]
    items = []
    for i, o in enumerate(ops):
        items += o + [("push", 32 * i), "MSTORE"]
    return items + [("push", 32 * len(ops)), "PUSH0", "RETURN"]


def setter_frame(cheat_items):
    """a frame that issues the cheatcode and returns"""
    return cheat_items + ["STOP"]


VALS = {"k7": [("push", 7)], "x": X, "max": [("pushn", 32, 2**256 - 1)], "big": [("pushn", 32, 2**255)], "k0": ["PUSH0"]}
SLOT = [("push", 5)]
ETCH_CODE = bytes.fromhex("602a5f5260205ff3")  # returns the word 0x2a


ALIAS = [("push", 0x1C0), "MLOAD"]  # where the fresh address a = svm.createAddress("a") is kept


def cheat_items(name, v, target):
    val = VALS[v]
    tgt = [("push", target)] if target != "x" else ALIAS  # "x": a fresh symbolic address that the path condition pins to T1
    if name == "deal":
        return e2e.vm("deal(address,uint256)", tgt, val)
    if name == "store":
        return e2e.vm("store(address,bytes32,bytes32)", tgt, SLOT, val)
    if name in ("warp", "roll", "fee", "chainId", "difficulty"):
        return e2e.vm(f"{name}(uint256)", val)
    if name == "coinbase":
        return e2e.vm("coinbase(address)", val)
    raise ValueError(name)


def read_all(p, where):
    """observe everything from the root frame and through the getters of both accounts"""
    if where == "alias":
        p.items += e2e.vm("load(address,bytes32)", ALIAS, SLOT, retsize=32, mem=0x80)
        p.out_from_mem(0x80, 1)
        p.items += ALIAS + ["BALANCE"]
        p.out_top()
    for op in ("TIMESTAMP", "NUMBER", "BASEFEE", "CHAINID", "COINBASE", "DIFFICULTY", "SELFBALANCE"):
        p.items += [op]
        p.out_top()
    for a in (T1, T2):
        p.items += [("push", a), "BALANCE"]
        p.out_top()
        p.items += [("push", 5), "PUSH0", "MSTORE", ("push", 256), ("push", 0x200), ("push", 32), "PUSH0", ("push", a), ("push", 0xFFFF), "STATICCALL", "POP"]
        p.out_from_mem(0x200, 8)
        # vm.load
        p.items += e2e.vm("load(address,bytes32)", [("push", a)], SLOT, retsize=32, mem=0x80)
        p.out_from_mem(0x80, 1)


def state_spec(name, v, target, nested):
    p = Prog()
    accounts = {}
    ci = cheat_items(name, v, target)
    if target == "x":
        # a = svm.createAddress(""); vm.assume(a == T1)
        p.items += e2e.svm("createAddress(string)", [("push", 32)], retsize=32, mem=0x80, pop=True) + [("push", 0x80), "MLOAD", ("push", 0x1C0), "MSTORE"]
        p.items += e2e.vm("assume(bool)", ALIAS + [("push", T1), "EQ"])
    if nested:
        accounts[hex(H)] = {"code": asm.assemble(["PUSH0", "CALLDATALOAD", "PUSH0", "MSTORE"] + setter_frame(ci)).hex(), "balance": 0}
        # forward x to the helper
        p.items += X + ["PUSH0", "MSTORE", "PUSH0", "PUSH0", ("push", 32), "PUSH0", "PUSH0", ("push", H), ("push", 0xFFFF), "CALL"]
        p.out_top()
    else:
        p.items += ci
    read_all(p, "alias" if target == "x" else None)
    accounts.update({
        hex(ROOT): {"code": p.finish().hex(), "balance": 10},
        hex(T1): {"code": asm.assemble(getter()).hex(), "balance": 3},
        hex(T2): {"code": asm.assemble(getter()).hex(), "balance": 4},
    })
    spec = {"accounts": accounts, "target": ROOT, "caller": 0xE0A, "origin": 0xE0B, "value": 0, "calldata": [["sym", "x", 32]], "options": {}, "cheats": True}
    if target == "x":
        spec["tape"] = [["sym", "t0"]]
    return spec


def etch_spec(target_exists, probe=None):
    """vm.etch(a, code) then EXTCODESIZE / call of a and of another account.
    probe: the symbolic address x is looked at (EXTCODESIZE / STATICCALL) before the etch and again after it: what x denotes is decided
    afresh once the etch has created an account"""
    p = Prog()
    tgt = T1 if target_exists else 0xDD

    def look():
        if probe == "EXTCODESIZE":
            p.items += X + ["EXTCODESIZE"]
            p.out_top()
        elif probe == "STATICCALL":
            p.items += [("push", 32), ("push", 0x200), "PUSH0", "PUSH0"] + X + [("push", 0xFFFF), "STATICCALL"]
            p.out_top()
            p.out_from_mem(0x200, 1)

    look()
    blob = e2e.sel("etch(address,bytes)").to_bytes(4, "big") + w32(tgt) + w32(64) + w32(len(ETCH_CODE)) + ETCH_CODE.ljust(32, b"\x00")
    p.datas.append(("data", "etch", blob))
    p.items += [("sizeof", "etch"), ("offsetof", "etch"), ("push", 0x80), "CODECOPY", "PUSH0", "PUSH0", ("sizeof", "etch"), ("push", 0x80), "PUSH0", ("pushn", 20, e2e.HEVM), ("push", 0xFFFF), "CALL", "POP"]
    look()
    for a in (tgt, T2):
        p.items += [("push", a), "EXTCODESIZE"]
        p.out_top()
        p.items += [("push", 32), ("push", 0x200), "PUSH0", "PUSH0", ("push", a), ("push", 0xFFFF), "STATICCALL"]
        p.out_top()
        p.out_from_mem(0x200, 1)
    # storage of the etched account is untouched
    p.items += e2e.vm("load(address,bytes32)", [("push", tgt)], SLOT, retsize=32, mem=0x80)
    p.out_from_mem(0x80, 1)
    accounts = {
        hex(ROOT): {"code": p.finish().hex(), "balance": 10},
        hex(T1): {"code": asm.assemble(getter()).hex(), "balance": 3},
        hex(T2): {"code": asm.assemble(getter()).hex(), "balance": 4},
    }
    return {"accounts": accounts, "target": ROOT, "caller": 0xE0A, "origin": 0xE0B, "value": 0, "calldata": [["sym", "x", 32]], "options": {}, "cheats": True}


SGRID = [{"x": v} for v in (0, 1, 7, T1, 2**160 - 1, 2**255, 2**256 - 1)]
EGRID = [{"x": v} for v in (0, T1, T2, 0xDD, ROOT, 2**160 + 0xDD)]

BLOCK_OPS = {"warp": "TIMESTAMP", "roll": "NUMBER", "fee": "BASEFEE", "chainId": "CHAINID", "coinbase": "COINBASE", "difficulty": "DIFFICULTY"}


def fork_spec(name):
    """set a block value, fork on the input, and on each side read it, set it to a side-specific value and read it again:
    what one side sets must not be seen by the other"""
    p = Prog()
    sig = f"{name}(uint256)" if name != "coinbase" else "coinbase(address)"
    op = BLOCK_OPS[name]
    p.items += e2e.vm(sig, [("push", 7)])
    p.items += X + [("ref", "side"), "JUMPI"]
    n0 = p.nout
    for label, v in ((None, 11), ("side", 13)):
        if label:
            p.items += [("label", label)]
            p.nout = n0
        p.items += [op]
        p.out_top()
        p.items += e2e.vm(sig, [("push", v)])
        p.items += [op]
        p.out_top()
        if not label:
            p.items += [("ref", "join"), "JUMP"]
    p.items += [("label", "join")]
    accounts = {hex(ROOT): {"code": p.finish().hex(), "balance": 10}}
    return {"accounts": accounts, "target": ROOT, "caller": 0xE0A, "origin": 0xE0B, "value": 0, "calldata": [["sym", "x", 32]], "options": {}, "cheats": True}


def etch_seq_spec(fresh):
    """store, then (re-)etch, then read: vm.etch replaces the code of an account and nothing else.  fresh: the account starts without
    code (created by an etch of empty code) / is an existing contract"""
    p = Prog()
    tgt = 0xDD if fresh else T1
    code = asm.assemble(getter())

    def etch(tag, blob_code):
        blob = e2e.sel("etch(address,bytes)").to_bytes(4, "big") + w32(tgt) + w32(64) + w32(len(blob_code)) + blob_code + b"\x00" * ((-len(blob_code)) % 32)
        p.datas.append(("data", tag, blob))
        p.items += [("sizeof", tag), ("offsetof", tag), ("push", 0x80), "CODECOPY", "PUSH0", "PUSH0", ("sizeof", tag), ("push", 0x80), "PUSH0", ("pushn", 20, e2e.HEVM), ("push", 0xFFFF), "CALL", "POP"]

    if fresh:
        etch("e0", b"")
    p.items += e2e.vm("store(address,bytes32,bytes32)", [("push", tgt)], SLOT, X)
    p.items += e2e.vm("deal(address,uint256)", [("push", tgt)], [("push", 9)])
    etch("e1", code)
    p.items += [("push", tgt), "EXTCODESIZE"]
    p.out_top()
    p.items += [("push", 5), "PUSH0", "MSTORE", ("push", 256), ("push", 0x200), ("push", 32), "PUSH0", ("push", tgt), ("push", 0xFFFF), "STATICCALL"]
    p.out_top()
    p.out_from_mem(0x200, 2)  # SLOAD(5), SELFBALANCE seen by the etched code
    p.items += e2e.vm("load(address,bytes32)", [("push", tgt)], SLOT, retsize=32, mem=0x80)
    p.out_from_mem(0x80, 1)
    accounts = {
        hex(ROOT): {"code": p.finish().hex(), "balance": 10},
        hex(T1): {"code": asm.assemble(getter()[:-3] + ["STOP"]).hex(), "balance": 3},
    }
    return {"accounts": accounts, "target": ROOT, "caller": 0xE0A, "origin": 0xE0B, "value": 0, "calldata": [["sym", "x", 32]], "options": {}, "cheats": True}


def addr_spec(shape):
    """vm.addr(privateKey): the same key gives the same address, different keys different ones, and a concrete key its real address.
    shape: list of key sources out of "x", "y", "k1", "k2", "x+1"; the program returns every address and every pairwise equality"""
    p = Prog()
    src = {"x": X, "y": Y, "k1": [("push", 1)], "k2": [("push", 2)], "x+1": X + [("push", 1), "ADD"]}
    for i, k in enumerate(shape):
        p.items += e2e.vm("addr(uint256)", src[k], retsize=32, mem=0x80) + [("push", 0x80), "MLOAD", ("push", 0x300 + 32 * i), "MSTORE"]
    for i in range(len(shape)):
        p.items += [("push", 0x300 + 32 * i), "MLOAD"]
        p.out_top()
    for i in range(len(shape)):
        for j in range(i + 1, len(shape)):
            p.items += [("push", 0x300 + 32 * i), "MLOAD", ("push", 0x300 + 32 * j), "MLOAD", "EQ"]
            p.out_top()
    accounts = {hex(ROOT): {"code": p.finish().hex(), "balance": 10}}
    return {"accounts": accounts, "target": ROOT, "caller": 0xE0A, "origin": 0xE0B, "value": 0, "calldata": [["sym", "x", 32], ["sym", "y", 32]], "options": {}, "cheats": True}


SECP_N = 0xFFFFFFFFFFFFFFFFFFFFFFFFFFFFFFFEBAAEDCE6AF48A03BBFD25E8CD0364141
AGRID = [{"x": a, "y": b} for a in (1, 2, 5, SECP_N - 1) for b in (1, 2, 6, SECP_N - 1)]
ADDR_SHAPES = [["x"], ["k1"], ["x", "y"], ["x", "x"], ["x", "k1"], ["k1", "k2"], ["x", "y", "k2"], ["x", "x+1", "y"], ["y", "x", "y"]]


def state_cases():
    out = []
    for name in ("deal", "store", "warp", "roll", "fee", "chainId", "coinbase", "difficulty"):
        for v in VALS:
            if name == "deal" and v in ("max", "big"):
                continue  # balances above 2^128 are outside halmos's documented model (it stops with an internal error: fail-safe)
            for target in ((T1, T2, "x") if name in ("deal", "store") else (T1,)):
                for nested in ((False, True) if target != "x" else (False,)):
                    out.append({"kind": "state", "name": name, "v": v, "target": target, "nested": nested})
    for probe in (None, "EXTCODESIZE", "STATICCALL"):
        out.append({"kind": "etch", "exists": True, "probe": probe})
        out.append({"kind": "etch", "exists": False, "probe": probe})
    for sh in ADDR_SHAPES:
        out.append({"kind": "addr", "shape": sh})
    for nm in BLOCK_OPS:
        out.append({"kind": "fork", "name": nm})
    out.append({"kind": "etchseq", "fresh": True})
    out.append({"kind": "etchseq", "fresh": False})
    return out


# ---------------------------------------------------------------------------
# fresh symbols
# ---------------------------------------------------------------------------


def enc_call(sig, args):
    """selector + ABI encoding; args: ints or str (dynamic string)"""
    types = sig[sig.index("(") + 1 : -1].split(",")
    head, tail = b"", b""
    hs = 32 * len(types)
    for t, a in zip(types, args):
        if t == "string":
            b = a.encode()
            head += w32(hs + len(tail))
            tail += w32(len(b)) + b + b"\x00" * ((-len(b)) % 32)
        else:
            head += w32(a)
    return e2e.sel(sig).to_bytes(4, "big") + head + tail


def fresh_call(p, addr, blob, name, ret_words=None, ret_bytes=None):
    p.datas.append(("data", name, blob))
    p.items += [("sizeof", name), ("offsetof", name), ("push", 0x80), "CODECOPY",
                "PUSH0", "PUSH0", ("sizeof", name), ("push", 0x80), "PUSH0", ("pushn", 20, addr), ("push", 0xFFFF), "CALL"]
    p.out_top()
    p.items += ["RETURNDATASIZE", "PUSH0", ("push", 0x200), "RETURNDATACOPY"]
    if ret_bytes is not None:
        # (offset, length, first ret_bytes content bytes): mask the tail of the last word
        nw = 2 + (ret_bytes + 31) // 32
        if ret_bytes % 32:
            last = 0x200 + 64 + 32 * (ret_bytes // 32)
            mask = (2**256 - 1) ^ ((1 << (8 * (32 - ret_bytes % 32))) - 1)
            p.items += [("push", last), "MLOAD", ("pushn", 32, mask), "AND", ("push", last), "MSTORE"]
        p.out_from_mem(0x200, nw)
    else:
        p.out_from_mem(0x200, ret_words or 1)


def fresh_cases(tier):
    out = []
    widths = list(range(1, 257)) if tier == "thorough" else [1, 2, 7, 8, 9, 31, 32, 63, 64, 127, 128, 159, 160, 161, 248, 255, 256]
    for w in widths:
        for f in ("createUint", "createInt", "randomUint", "randomInt"):
            out.append({"kind": "fresh", "f": f, "bits": w})
    for n in (0, 1, 31, 32, 33, 65):
        for f in ("createBytes", "createString", "randomBytes"):
            out.append({"kind": "fresh", "f": f, "n": n})
    for f in ("createUint256", "createInt256", "createBytes32", "createAddress", "createBool", "createBytes4", "randomUint256", "randomInt256", "randomAddress", "randomBool", "randomBytes4", "randomBytes8"):
        out.append({"kind": "fresh", "f": f})
    W = [0, 1, 7, 2**255 - 1, 2**255, 2**256 - 2, 2**256 - 1]
    for lo, hi in itertools.product(W, repeat=2):
        if lo <= hi:
            out.append({"kind": "fresh", "f": "createUint256Range", "lo": lo, "hi": hi})
            out.append({"kind": "fresh", "f": "randomUintRange", "lo": lo, "hi": hi})
    out.append({"kind": "fresh", "f": "createUint256Range", "lo": 5, "hi": 4})
    out.append({"kind": "fresh", "f": "pair", "a": "createUint256", "b": "createUint256"})
    out.append({"kind": "fresh", "f": "pair", "a": "createUint", "b": "randomUint256"})
    out.append({"kind": "fresh", "f": "pair", "a": "randomUint256", "b": "randomUint256"})
    out.append({"kind": "fresh", "f": "pair-branch"})
    return out


def one_fresh(p, f, case, tag):
    """emit the call; returns the bit width of the value the tape must supply"""
    S, V = e2e.SVM, e2e.HEVM
    if f == "createUint":
        fresh_call(p, S, enc_call("createUint(uint256,string)", [case["bits"], tag]), tag)
    elif f == "createInt":
        fresh_call(p, S, enc_call("createInt(uint256,string)", [case["bits"], tag]), tag)
    elif f == "randomUint":
        fresh_call(p, V, enc_call("randomUint(uint256)", [case["bits"]]), tag)
    elif f == "randomInt":
        fresh_call(p, V, enc_call("randomInt(uint256)", [case["bits"]]), tag)
    elif f in ("createBytes", "createString"):
        fresh_call(p, S, enc_call(f"{f}(uint256,string)", [case["n"], tag]), tag, ret_bytes=case["n"])
    elif f == "randomBytes":
        fresh_call(p, V, enc_call("randomBytes(uint256)", [case["n"]]), tag, ret_bytes=case["n"])
    elif f in ("createUint256", "createInt256", "createBytes32", "createAddress", "createBool", "createBytes4"):
        fresh_call(p, S, enc_call(f"{f}(string)", [tag]), tag)
    elif f in ("randomUint256", "randomInt256"):
        fresh_call(p, V, enc_call("randomUint()" if f == "randomUint256" else "randomInt()", []), tag)
    elif f in ("randomAddress", "randomBool", "randomBytes4", "randomBytes8"):
        fresh_call(p, V, enc_call(f"{f}()", []), tag)
    elif f == "createUint256Range":
        fresh_call(p, S, enc_call("createUint256(string,uint256,uint256)", [tag, case["lo"], case["hi"]]), tag)
    elif f == "randomUintRange":
        fresh_call(p, V, enc_call("randomUint(uint256,uint256)", [case["lo"], case["hi"]]), tag)
    else:
        raise ValueError(f)


def fresh_spec(case):
    p = Prog()
    f = case["f"]
    if f == "pair":
        one_fresh(p, case["a"], {"bits": 8}, "a")
        one_fresh(p, case["b"], {"bits": 8}, "b")
        ntape = 2
    elif f == "pair-branch":
        # create, branch on calldata, create again on both sides
        one_fresh(p, "createUint256", {}, "a")
        p.items += X + [("ref", "side"), "JUMPI"]
        one_fresh(p, "createUint256", {}, "b")
        p.items += [("ref", "join"), "JUMP", ("label", "side")]
        p.nout -= 2
        one_fresh(p, "randomUint256", {}, "c")
        p.items += [("label", "join")]
        ntape = 2
    else:
        one_fresh(p, f, case, "a")
        ntape = 1
    accounts = {hex(ROOT): {"code": p.finish().hex(), "balance": 10}}
    return {"accounts": accounts, "target": ROOT, "caller": 0xE0A, "origin": 0xE0B, "value": 0, "calldata": [["sym", "x", 32]], "options": {},
            "cheats": True, "tape": [["sym", f"t{i}"] for i in range(ntape)]}, ntape


def tape_grid(case, ntape):
    f = case["f"]
    if "bits" in case:
        b = case["bits"]
        vals = sorted({0, 1, (1 << (b - 1)) - 1 if b > 1 else 0, 1 << (b - 1), (1 << b) - 1, (1 << b) - 2 if b > 1 else 0})
    elif "n" in case:
        n = case["n"]
        vals = [0] if n == 0 else sorted({0, 1, 0x41 << (8 * (n - 1)), (1 << (8 * n)) - 1, int.from_bytes(bytes(range(1, n + 1)), "big")})
    elif "lo" in case:
        lo, hi = case["lo"], case["hi"]
        vals = sorted({v % 2**256 for v in (0, 1, lo, hi, lo - 1, hi + 1, lo + 1, 2**255, 2**256 - 1)})
    else:
        vals = [0, 1, 2, 2**159, 2**160 - 1, 2**160, 2**255, 2**256 - 1, 0xDEADBEEF, 2**64 - 1, 2**32]
    if ntape == 1:
        return [(v,) for v in vals]
    small = [0, 1, 255, 2**255, 2**256 - 1]
    return list(itertools.product(small, repeat=ntape))


def fresh_symbol_map(results, ntape):
    """names of the fresh symbols halmos created, in creation order"""
    prs, syms, info = results
    found = {}
    def walk(t, seen):
        if t.get_id() in seen:
            return
        seen.add(t.get_id())
        if z3.is_const(t) and t.decl().kind() == z3.Z3_OP_UNINTERPRETED and t.decl().name().startswith("halmos_"):
            found[t.decl().name()] = t.size()
        for c in t.children():
            walk(c, seen)
    seen = set()
    for pr in prs:
        for c in pr.conds:
            walk(c, seen)
        if pr.data is not None and not isinstance(pr.data, bytes):
            walk(pr.data, seen)
    return found


def width_of(case, f=None):
    f = f or case["f"]
    if f in ("createUint", "createInt", "randomUint", "randomInt"):
        return case["bits"]
    if f in ("createBytes", "createString", "randomBytes"):
        return 8 * case["n"]
    return {"createAddress": 160, "randomAddress": 160, "createBool": 1, "randomBool": 1, "createBytes4": 32, "randomBytes4": 32, "randomBytes8": 64}.get(f, 256)


def check_fresh(acc, case):
    name = "fresh:" + ":".join(f"{k}={v}" for k, v in case.items() if k != "kind")
    spec, ntape = fresh_spec(case)
    acc.count("programs")
    cs = dict(case, kind2="fresh")
    try:
        results = hdriver.run_halmos(spec)
    except Exception as e:
        acc.violation(f"crash:{name}", f"{name}: halmos raised {type(e).__name__}: {e}", cs)
        return
    prs, syms, info = results
    fresh = fresh_symbol_map(results, ntape)
    # order fresh symbols by their numeric id suffix
    names = sorted(fresh, key=lambda n: int(n.rsplit("_", 1)[1]))
    f = case["f"]
    lo_gt_hi = f.endswith("Range") and case["lo"] > case["hi"]
    if lo_gt_hi:
        if not all(p.kind == "stuck" for p in prs):
            acc.violation(f"range-error:{name}", f"{name}: min > max must be an error, got {prs}", cs)
        else:
            acc.state(name)
        return
    if any(p.kind == "stuck" for p in prs):
        acc.violation(f"stuck:{name}", f"{name}: stuck: {[p.stuck_reason for p in prs if p.kind == 'stuck'][:2]}", cs)
        return
    expect_syms = ntape if not (f in ("createBytes", "createString", "randomBytes") and case["n"] == 0) else 0
    if f == "pair-branch":
        expect_syms = 3
    if len(names) != expect_syms:
        acc.violation(f"symbols:{name}", f"{name}: expected {expect_syms} fresh symbol(s), found {names}", cs)
        return
    if f not in ("pair", "pair-branch") and names and fresh[names[0]] != width_of(case):
        acc.violation(f"width:{name}", f"{name}: fresh symbol {names[0]} is {fresh[names[0]]} bits wide, requested {width_of(case)}", cs)
        return
    # evaluate: fresh symbol i takes the tape value (truncated to its width)
    all_syms = dict(syms)
    all_syms.update(fresh)
    grid = []
    for tv in tape_grid(case, ntape):
        for xv in ((0, 1) if f == "pair-branch" else (0,)):
            inp = {"x": xv}
            for i, t in enumerate(tv):
                inp[f"t{i}"] = t
            if f == "pair-branch":
                # symbols: a (first), then b on one side / c on the other: both get the second tape value
                vals = [tv[0], tv[1], tv[1]]
            else:
                vals = list(tv)
            for nme, v in zip(names, vals):
                inp[nme] = v & ((1 << fresh[nme]) - 1)
            grid.append(inp)
    acc.count("paths", len(prs))
    issues, stats = progcheck.check_program(spec, grid, want_coverage=True, results=(prs, all_syms, info))
    acc.count("pairs", stats["pairs"])
    for o in stats["outcomes"]:
        acc.outcome((f, o[0], o[1] is not None and o[1] % 7))
    for i in issues[:1]:
        acc.violation(f"{i.kind}:{name}", f"{name} tape/symbol values={ {k: hex(v) for k, v in (i.inputs or {}).items()} }: {i.kind}: {i.detail[:300]}", dict(cs, inputs=i.inputs))
        return
    acc.state(name)


# ---------------------------------------------------------------------------


def run_prog(acc, spec, grid, name, case):
    acc.count("programs")
    try:
        results = hdriver.run_halmos(spec)
    except Exception as e:
        acc.violation(f"crash:{name}", f"{name}: halmos raised {type(e).__name__}: {e}", case)
        return
    if spec.get("tape"):
        # one fresh address symbol, pinned to T1 by vm.assume: the tape supplies T1 and the symbol takes that value
        fresh = fresh_symbol_map(results, 1)
        if len(fresh) != 1:
            acc.violation(f"symbols:{name}", f"{name}: expected one fresh symbol, found {sorted(fresh)}", case)
            return
        (fname, fw), = fresh.items()
        all_syms = dict(results[1])
        all_syms[fname] = fw
        results = (results[0], all_syms, results[2])
        grid = [dict(g, t0=T1, **{fname: T1}) for g in grid]
    issues, stats = progcheck.check_program(spec, grid, want_coverage=True, results=results)
    acc.count("paths", stats["paths"])
    acc.count("pairs", stats["pairs"])
    acc.count("stuck_paths", stats["stuck"])
    for o in stats["outcomes"]:
        acc.outcome((name.split(":")[0], o[0], o[1] is not None and o[1] % 97))
    for i in issues[:1]:
        acc.violation(f"{i.kind}:{name}", f"{name} inputs={i.inputs}: {i.kind}: {i.detail[:400]}", dict(case, inputs=i.inputs))
        return
    # a stuck path (halmos refuses the cheatcode sequence) is only acceptable where Foundry refuses it too
    if stats["stuck"]:
        prs, syms, info = results
        evs = [(pr, hdriver.PathEval(pr, syms)) for pr in prs if pr.kind == "stuck"]
        for inputs in grid:
            for pr, pe in evs:
                sat, ok, _ = pe.run(hdriver.mk_env(inputs))
                if sat and ok:
                    ref, _ = hdriver.run_reference(spec, inputs)
                    if ref[0] not in ("CheatError", "Unsupported", "Limit"):
                        acc.violation(f"stuck:{name}", f"{name} inputs={inputs}: halmos stops with an internal error ({pr.stuck_reason}) but the sequence is legal in Foundry (reference: {progcheck.fmt_outcome(ref)})", dict(case, inputs=inputs))
                        return
    acc.state(name)


def shards(tier, seed):
    out = []
    seqs = list(prank_sequences(tier))
    n = 48
    for i in range(n):
        if seqs[i::n]:
            out.append({"kind": "prank", "seqs": seqs[i::n]})
    sc = state_cases()
    for i in range(8):
        out.append({"kind": "state", "cases": sc[i::8]})
    fc = fresh_cases(tier)
    for i in range(16):
        out.append({"kind": "fresh", "cases": fc[i::16]})
    return rotate(out, seed)


def run_shard(shard):
    hdriver.install_logging()
    hdriver.install_uid()
    acc = Acc(max_violations=30)
    k = shard["kind"]
    if k == "prank":
        for seq in shard["seqs"]:
            run_prog(acc, prank_spec(seq), PGRID, "prank:" + ";".join(seq), {"kind2": "prank", "seq": seq})
        acc.sample({"prank_sequence": shard["seqs"][0], "inputs_x": [g["x"] for g in PGRID]})
    elif k == "state":
        for c in shard["cases"]:
            if c["kind"] == "etch":
                run_prog(acc, etch_spec(c["exists"], c.get("probe")), EGRID if c.get("probe") else SGRID[:2], f"etch:exists={c['exists']}:probe={c.get('probe')}", dict(c, kind2="state"))
            elif c["kind"] == "addr":
                run_prog(acc, addr_spec(c["shape"]), AGRID, f"addr:{','.join(c['shape'])}", dict(c, kind2="state"))
            elif c["kind"] == "fork":
                run_prog(acc, fork_spec(c["name"]), SGRID[:3], f"fork:{c['name']}", dict(c, kind2="state"))
            elif c["kind"] == "etchseq":
                run_prog(acc, etch_seq_spec(c["fresh"]), SGRID[:3], f"etchseq:fresh={c['fresh']}", dict(c, kind2="state"))
            else:
                grid = SGRID if c["name"] != "deal" else [g for g in SGRID if g["x"] < 2**128]  # balances above 2^128: documented modelling assumption
                run_prog(acc, state_spec(c["name"], c["v"], c["target"], c["nested"]), grid, f"state:{c['name']}({c['v']})@{c['target'] if c['target'] == 'x' else hex(c['target'])}:nested={c['nested']}", dict(c, kind2="state"))
        acc.sample({"state_case": shard["cases"][0]})
    else:
        for c in shard["cases"]:
            check_fresh(acc, c)
        acc.sample({"fresh_case": shard["cases"][0]})
    return acc.result()


def coverage(tier, merged):
    c = merged["counts"]
    return {
        "states": len(merged["states"]),
        "transitions": c.get("paths", 0),
        "traces_validated_against_impl": c.get("pairs", 0),
        "programs": c.get("programs", 0),
        "paths_reported": c.get("paths", 0),
        "stuck_paths_with_reference_error": c.get("stuck_paths", 0),
        "exhaustive": not merged["capped"],
        "rule": "states = programs (prank sequences, state-cheatcode cases, fresh-symbol cases) whose every (path, input) pair agreed with the reference; transitions = reported paths; "
                "traces validated = (path, input) pairs compared with the reference EVM + Foundry cheatcode model",
    }


def replay(case):
    hdriver.install_logging()
    hdriver.install_uid()
    acc = Acc()
    k = case.get("kind2")
    if k == "prank":
        run_prog(acc, prank_spec(case["seq"]), PGRID, "prank:" + ";".join(case["seq"]), case)
    elif k == "state":
        if case["kind"] == "etch":
            run_prog(acc, etch_spec(case["exists"], case.get("probe")), EGRID if case.get("probe") else SGRID[:2], f"etch:exists={case['exists']}:probe={case.get('probe')}", case)
        elif case["kind"] == "addr":
            run_prog(acc, addr_spec(case["shape"]), AGRID, f"addr:{','.join(case['shape'])}", case)
        elif case["kind"] == "fork":
            run_prog(acc, fork_spec(case["name"]), SGRID[:3], f"fork:{case['name']}", case)
        elif case["kind"] == "etchseq":
            run_prog(acc, etch_seq_spec(case["fresh"]), SGRID[:3], f"etchseq:fresh={case['fresh']}", case)
        else:
            run_prog(acc, state_spec(case["name"], case["v"], case["target"], case["nested"]), SGRID, "state", case)
    else:
        check_fresh(acc, {k2: v for k2, v in case.items() if k2 not in ("kind2", "inputs")})
    v = acc.result()["violations"]
    return {"violated": bool(v), "obs": [x["what"] for x in v][:3], "key": v[0]["key"] if v else ""}
