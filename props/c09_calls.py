"""C09 - message calls are atomic and see the right context.

All call trees up to a depth bound over generated callee contracts (see
mc/calltree.py) are executed by the real SEVM.run and compared, for every
value of the symbolic call value, with the reference EVM: success flags,
return data, per-frame CALLER/ORIGIN/ADDRESS/CALLVALUE, storage, transient
storage, balances and code of every account after the tree has run.
"""

from __future__ import annotations

import itertools

from mc import calltree, hdriver, progcheck
from mc.calltree import mk, tree_str
from mc.core import Acc, rotate

ID = "C09"
LEVEL = "model_checking"
ASSUMPTIONS = [
    "callee pool: one generated contract per tree node; each frame = (call kind, effects subset of {SSTORE, TSTORE, LOG}, value in {0, 1, symbolic x, forwarded CALLVALUE}, outcome in {return, revert, invalid, out-of-bounds RETURNDATACOPY, stop})",
    "symbolic value x ranges over {0, 1, balance, balance+1} of the root (balance = 5)",
    "created addresses are abstract: the reference takes the addresses halmos reports (and the comparison of every later read through them checks they are used consistently)",
    "gas, precompiles other than identity, depth limit, nonces and the 0xEF rule are outside the alphabet",
]

KINDS = ["CALL", "STATICCALL", "DELEGATECALL", "CALLCODE", "CREATE", "CREATE2"]
OUTCOMES = ["return", "revert", "invalid", "oob", "stop"]
ROOT_BAL = 5


def value_choices(kind, depth, tier):
    if kind in ("STATICCALL", "DELEGATECALL"):
        return ["0"]
    if depth == 1:
        return ["0", "x", "k1"] if tier == "thorough" else ["0", "x"]
    return ["0", "fwd", "k1"] if (tier == "thorough" or kind == "CALL") else ["0", "fwd"]


def frames(depth, tier, level):
    """frame alphabet at a given depth; level 'full' | 'reduced'"""
    out = []
    if level == "full":
        for kind in KINDS:
            for eff in ("", "STL", "S", "T", "L") if (tier == "thorough" or kind == "STATICCALL") else ("", "STL"):
                for oc in OUTCOMES:
                    for v in value_choices(kind, depth, tier):
                        out.append((kind, eff, v, oc))
    else:
        for kind in KINDS:
            for oc in ("return", "revert"):
                for v in value_choices(kind, depth, "quick")[-1:]:
                    out.append((kind, "STL", v, oc))
    return out


def root_variants(tier):
    return [("", "return"), ("STL", "return"), ("STL", "revert")] if tier == "thorough" else [("STL", "return"), ("S", "revert")]


def trees(tier):
    """yields trees (dicts)"""
    # depth 1: root -> one child, full alphabet
    for reff, roc in root_variants(tier):
        for f in frames(1, tier, "full"):
            yield mk("TX", reff, "0", roc, [mk(*f)])
    # depth 2 chains: child full x grandchild reduced, and child reduced x grandchild full
    for f1 in frames(1, tier, "full"):
        for f2 in frames(2, tier, "reduced"):
            yield mk("TX", "S", "0", "return", [mk(f1[0], f1[1], f1[2], f1[3], [mk(*f2)])])
    for f1 in frames(1, tier, "reduced"):
        for f2 in frames(2, tier, "full"):
            yield mk("TX", "S", "0", "return", [mk(f1[0], f1[1], f1[2], f1[3], [mk(*f2)])])
    # two children in sequence (the second call starts from whatever the first left behind)
    for f1 in frames(1, tier, "reduced"):
        for f2 in frames(1, tier, "full" if tier == "thorough" else "reduced"):
            yield mk("TX", "ST", "0", "return", [mk(*f1), mk(*f2)])
    # depth 3 chains, reduced alphabet
    red1, red2 = frames(1, tier, "reduced"), frames(2, tier, "reduced")
    for f1 in red1:
        for f2 in red2:
            for f3 in red2:
                if tier == "quick" and (f1[3], f2[3], f3[3]).count("revert") == 0 and f1[0] == f2[0] == f3[0]:
                    continue
                yield mk("TX", "S", "0", "return", [mk(f1[0], f1[1], f1[2], f1[3], [mk(f2[0], f2[1], f2[2], f2[3], [mk(*f3)])])])
    # callee outcomes that branch on the symbolic input (two failing paths / one failing and one succeeding path), with the caller
    # writing storage *after* it has looked at it: paths that resume in the caller after a failed callee must not share state
    sym_kinds = [("CALL", "x"), ("CALL", "0"), ("STATICCALL", "0"), ("DELEGATECALL", "0"), ("CALLCODE", "x")]
    for (kind, v), oc, eff in itertools.product(sym_kinds, ("symfail", "symmix"), ("", "STL")):
        for post in ("S", "ST"):
            yield mk("TX", "S", "0", "return", [mk(kind, eff, v, oc)], post=post)
            yield mk("TX", "ST", "0", "return", [mk(kind, eff, v, oc), mk("CALL", "STL", "0", "return")], post=post)
            yield mk("TX", "S", "0", "return", [mk("CALL", "S", "0", "return", [mk(kind, eff, "fwd" if v == "x" else v, oc)], post=post)])
            yield mk("TX", "S", "0", "return", [mk("DELEGATECALL", "S", "0", "return", [mk(kind, eff, "0", oc)], post=post)], post="T")
    # creations at the same address twice (same CREATE2 salt and init code; the init code reverts iff it receives no value): a failed
    # creation must leave no account behind, a successful one makes the second collide
    for k in ("CREATE2", "CREATE"):
        for v1, v2 in (("0", "k1"), ("k1", "0"), ("k1", "k1"), ("0", "0"), ("x", "k1"), ("x", "x")):
            for eff in ("", "STL"):
                yield mk("TX", "S", "0", "return", [mk(k, eff, v1, "valmix"), mk(k, eff, v2, "valmix", twin=True)])
                yield mk("TX", "S", "0", "return", [mk("CALL", "S", "x", "return", [mk(k, eff, "fwd" if v1 == "x" else v1, "valmix"), mk(k, eff, "fwd" if v2 == "x" else v2, "valmix", twin=True)])])
    # value-bearing calls inside a static frame: CALL with a non-zero value is a state change (the frame fails), CALLCODE moves nothing
    # and is legal (EIP-214 names CALL only); directly under the STATICCALL and with a CALL / DELEGATECALL frame in between
    for kind in ("CALLCODE", "CALL"):
        for v in ("k1", "0"):
            leaf = mk(kind, "", v, "return")
            yield mk("TX", "S", "0", "return", [mk("STATICCALL", "", "0", "return", [leaf])])
            for mid in ("CALL", "DELEGATECALL"):
                yield mk("TX", "S", "0", "return", [mk("STATICCALL", "", "0", "return", [mk(mid, "", "0", "return", [mk(kind, "", v, "return")])])])
    # callees that hand back fewer bytes than the caller's return window (which the caller has filled beforehand)
    for kind in ("CALL", "STATICCALL", "DELEGATECALL", "CALLCODE"):
        for oc in ("short", "shortrev"):
            for eff in ("", "STL"):
                yield mk("TX", "S", "0", "return", [mk(kind, eff, "0", oc)])
                yield mk("TX", "S", "0", "return", [mk("CALL", "S", "0", "return", [mk(kind, eff, "0", oc)])])
    # value-bearing calls of a frame to its own address
    for v, post in itertools.product(("x", "k1", "0"), ("", "S")):
        yield mk("TX", "S", "0", "return", [mk("SELFCALL", "", v, "stop")], post=post)
        yield mk("TX", "S", "0", "return", [mk("SELFCALL", "", v, "stop"), mk("CALL", "STL", "x", "return")], post=post)
        yield mk("TX", "S", "0", "return", [mk("CALL", "S", "x", "return", [mk("SELFCALL", "", "fwd" if v == "x" else v, "stop")], post=post)])
        yield mk("TX", "S", "0", "return", [mk("CALL", "S", "x", "revert", [mk("SELFCALL", "", "fwd" if v == "x" else v, "stop")], post=post)])
    if tier == "thorough":
        # depth 4 chains over call kinds only (return/revert at the leaf)
        ks = [("CALL", "STL", "fwd"), ("STATICCALL", "STL", "0"), ("DELEGATECALL", "STL", "0"), ("CALLCODE", "STL", "fwd"), ("CREATE", "STL", "fwd")]
        for a, b, c, d in itertools.product(ks, repeat=4):
            for oc in ("return", "revert"):
                leaf = mk(d[0], d[1], d[2], oc)
                n3 = mk(c[0], c[1], c[2], "return", [leaf])
                n2 = mk(b[0], b[1], b[2], "return", [n3])
                n1 = mk(a[0], a[1], "x" if a[2] == "fwd" else a[2], "return", [n2])
                yield mk("TX", "S", "0", "return", [n1])


def mk_spec(tree, options=None):
    accounts, nodes, words = calltree.build(tree)
    acc = {}
    for addr, code in accounts.items():
        acc[hex(addr)] = {"code": code.hex(), "balance": ROOT_BAL if addr == calltree.ROOT_ADDR else 0}
    return {
        "accounts": acc,
        "extra_balances": {"0xe0a": 3},
        "target": calltree.ROOT_ADDR,
        "caller": 0xE0A,
        "origin": 0xE0B,
        "value": 0,
        "calldata": [["sym", "x", 32]],
        "options": dict(options or {}),
    }


GRID = [{"x": v} for v in (0, 1, ROOT_BAL, ROOT_BAL + 1)]


def explain(spec, tree, issue, results):
    """name the first differing payload word"""
    try:
        pr = results[0][issue.path]
        pe = hdriver.PathEval(pr, results[1])
        _, _, outcome = pe.run(hdriver.mk_env(issue.inputs))
        ref, _ = hdriver.run_reference(spec, issue.inputs, creates=pr.creates or None)
        if outcome[0] != ref[0]:
            return f"err {outcome[0]} != {ref[0]}"
        a, b = outcome[1] or b"", ref[1] or b""
        if len(a) != len(b):
            return f"len {len(a)} != {len(b)}"
        for i in range(0, len(a), 32):
            if a[i:i + 32] != b[i:i + 32]:
                return f"word {i // 32}: halmos {a[i:i+32].hex().lstrip('0') or '0'} evm {b[i:i+32].hex().lstrip('0') or '0'}"
        if list(outcome[2]) != list(ref[2]):
            return f"logs {outcome[2]} != {ref[2]}"
    except Exception as e:
        return f"(explain failed: {e})"
    return "?"


def check_tree(acc, tree, options=None):
    spec = mk_spec(tree, options)
    name = tree_str(tree)
    acc.count("trees")
    case = {"tree": strip(tree), "options": options}
    try:
        results = hdriver.run_halmos(spec)
    except Exception as e:
        acc.violation(f"crash:{type(e).__name__}:{name}", f"halmos raised {type(e).__name__}: {e} on tree {name}", case)
        return
    issues, stats = progcheck.check_program(spec, GRID, want_coverage=True, results=results)
    acc.count("paths", stats["paths"])
    acc.count("stuck_paths", stats["stuck"])
    acc.count("pairs", stats["pairs"])
    acc.count("frames", count_nodes(tree))
    for o in stats["outcomes"]:
        acc.outcome(o)
    if stats["stuck"]:
        reasons = sorted({(p.stuck_reason or "")[:80] for p in results[0] if p.kind == "stuck"})
        acc.violation(f"stuck:{name}", f"tree {name}: {stats['stuck']} path(s) stuck: {reasons}", case)
    for i in issues[:1]:
        what = explain(spec, tree, i, results) if i.kind == "unsound" else i.detail
        acc.violation(f"{i.kind}:{name}", f"tree {name} x={i.inputs and i.inputs.get('x')}: {i.kind}: {what}", dict(case, inputs=i.inputs))


# ---------------------------------------------------------------------------
# what a symbolic address denotes is rolled back with the frame that created the account
# ---------------------------------------------------------------------------

NEW_ADDR = 0xAAAA0002  # the address halmos gives the first contract created in a transaction
B_ADDR = 0xB1
ALIAS_GRID = [{"x": v} for v in (0, NEW_ADDR, B_ADDR, calltree.ROOT_ADDR, 0xE0AE, (1 << 160) + NEW_ADDR)]


def alias_cases():
    for outcome in ("revert", "stop", "invalid"):
        for inner in ("CALL", "STATICCALL", "EXTCODESIZE", "none"):
            for second in ("CALL", "STATICCALL", "EXTCODESIZE"):
                yield {"outcome": outcome, "inner": inner, "second": second}


def alias_spec(case):
    """A(x): CALL B(x); then observe x (CALL / STATICCALL / EXTCODESIZE); return (flag of B, observation, RETURNDATASIZE, EXTCODESIZE(x)).
    B(x): n = CREATE(one-byte runtime); touch x (so that `x == n` is decided inside B's frame); then revert / stop / INVALID."""
    from mc import asm

    X = ["PUSH0", "CALLDATALOAD"]

    def touch(kind):
        if kind == "none":
            return []
        if kind == "EXTCODESIZE":
            return X + ["EXTCODESIZE"]
        return ["PUSH0", "PUSH0", "PUSH0", "PUSH0"] + (["PUSH0"] if kind == "CALL" else []) + X + [("push", 0xFFFF), kind]

    b = [("pushn", 4, 0x60015FF3), "PUSH0", "MSTORE", ("push", 4), ("push", 28), "PUSH0", "CREATE", "POP"]
    t = touch(case["inner"])
    b += t + (["POP"] if t else [])
    b += {"revert": ["PUSH0", "PUSH0", "REVERT"], "stop": ["STOP"], "invalid": ["INVALID"]}[case["outcome"]]
    a = X + ["PUSH0", "MSTORE", "PUSH0", "PUSH0", ("push", 32), "PUSH0", "PUSH0", ("push", B_ADDR), ("push", 0xFFFFFF), "CALL", ("push", 0x100), "MSTORE"]
    a += touch(case["second"]) + [("push", 0x120), "MSTORE", "RETURNDATASIZE", ("push", 0x140), "MSTORE"] + X + ["EXTCODESIZE", ("push", 0x160), "MSTORE"]
    a += [("push", 0x80), ("push", 0x100), "RETURN"]
    return {
        "accounts": {hex(calltree.ROOT_ADDR): {"code": asm.assemble(a).hex(), "balance": ROOT_BAL}, hex(B_ADDR): {"code": asm.assemble(b).hex(), "balance": 0}},
        "target": calltree.ROOT_ADDR, "caller": 0xE0A, "origin": 0xE0B, "value": 0, "calldata": [["sym", "x", 32]], "options": {},
    }


def check_alias(acc, case):
    spec = alias_spec(case)
    name = f"alias:B={case['inner']}/{case['outcome']}:then={case['second']}"
    acc.count("trees")
    acc.count("frames", 3)
    try:
        results = hdriver.run_halmos(spec)
    except Exception as e:
        acc.violation(f"crash:{type(e).__name__}:{name}", f"halmos raised {type(e).__name__}: {e} on {name} (A calls B(x); B creates an account, touches x, ends; A then observes x)", {"alias": case})
        return
    issues, stats = progcheck.check_program(spec, ALIAS_GRID, want_coverage=True, results=results)
    acc.count("paths", stats["paths"])
    acc.count("pairs", stats["pairs"])
    for o in stats["outcomes"]:
        acc.outcome(o)
    if stats["stuck"]:
        acc.violation(f"stuck:{name}", f"{name}: {stats['stuck']} path(s) stuck", {"alias": case})
    for i in issues[:1]:
        acc.violation(f"{i.kind}:{name}", f"{name} x={i.inputs and hex(i.inputs.get('x', 0))}: {i.kind}: {i.detail[:300]}", {"alias": case, "inputs": i.inputs})


def count_nodes(t):
    return 1 + sum(count_nodes(c) for c in t["children"])


def strip(t):
    d = {"kind": t["kind"], "effects": t["effects"], "value": t["value"], "outcome": t["outcome"], "post": t.get("post", ""), "children": [strip(c) for c in t["children"]]}
    if t.get("twin"):
        d["twin"] = True
    return d


NSHARDS = 64


def shards(tier, seed):
    return rotate([{"tier": tier, "i": i, "n": NSHARDS} for i in range(NSHARDS)], seed)


def run_shard(shard):
    hdriver.install_logging()
    hdriver.install_uid()
    acc = Acc(max_violations=40)
    for k, tree in enumerate(trees(shard["tier"])):
        if k % shard["n"] != shard["i"]:
            continue
        check_tree(acc, tree)
        if k < shard["n"] * 2:
            acc.sample({"tree": tree_str(tree), "inputs": [g["x"] for g in GRID]})
    for k, case in enumerate(alias_cases()):
        if k % shard["n"] == shard["i"]:
            check_alias(acc, case)
    return acc.result()


def coverage(tier, merged):
    c = merged["counts"]
    return {
        "states": c.get("trees", 0),
        "transitions": c.get("frames", 0),
        "traces_validated_against_impl": c.get("pairs", 0),
        "call_trees": c.get("trees", 0),
        "frames": c.get("frames", 0),
        "paths_reported": c.get("paths", 0),
        "exhaustive": not merged["capped"],
        "rule": "states = call trees (every tree of the shapes {root->1, root->1->1, root->2, root->1->1->1, thorough: depth-4 chains} over the frame "
                "alphabets); transitions = frames executed; traces validated = (path, input) pairs whose full observation record (flags, return data, "
                "per-frame context, dumps of every account) was compared with the reference EVM",
    }


def replay(case):
    hdriver.install_logging()
    hdriver.install_uid()
    acc = Acc()
    if "alias" in case:
        check_alias(acc, case["alias"])
    else:
        check_tree(acc, case["tree"], case.get("options"))
    v = acc.result()["violations"]
    return {"violated": bool(v), "obs": [x["what"] for x in v][:3], "key": v[0]["key"] if v else ""}
