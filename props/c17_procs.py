"""C17 - solver subprocess lifecycle is safe under every schedule.

The real halmos/processes.py (and solve.solve_low_level) runs unmodified under
the cooperative scheduler of mc/sched.py with simulated subprocesses.  Every
schedule with at most p deviations (preemptions at line granularity inside
processes.py, early process exits, timeout expiries, spawn failures) is
executed to completion for a set of small harnesses, and the invariants of
the property are evaluated on each execution."""

from __future__ import annotations

import os
import shutil
import subprocess
import tempfile
import time

from mc import sched
from mc.core import Acc, rotate

ID = "C17"
LEVEL = "model_checking"
ASSUMPTIONS = [
    "threads and synchronisation objects of halmos.processes / concurrent.futures are replaced by scheduler-owned shims (module attributes rebound in the harness process); scheduling points = every shim operation + every source line of processes.py (sys.settrace)",
    "subprocesses are simulated: Popen/psutil.Process/time inside halmos.processes; a process is {running, exited(rc)}; exit, communicate()-timeout expiry and spawn failure are environment choices of the explorer; kill() takes effect at once; SIGTERM normally too, but a process may ignore it (environment choice): then the 0.5 s grace wait raises psutil.TimeoutExpired and only kill() ends it",
    "bounds: harnesses with 1-3 jobs and 2-4 threads; all schedules with <= 1 (quick) / <= 2 (thorough) deviations from the default schedule (run the current thread while it can, environment events last); a budget cap is reported if hit",
    "a free-running pass of the same harness bodies with real threads and real `sleep`/`echo` subprocesses checks that the simulated protocol matches the real one on scripted scenarios",
]

TRACE = ("halmos/processes.py",)
# functions of processes.py whose lines are scheduling points (the racy ones); constructors and trivial accessors are not
TRACE_FUNCS = ("submit", "shutdown", "_join", "run", "cancel", "start", "is_running", "shutdown_all", "register")


class Ctx:
    pass


def install(sch, scripts, spawn_failure=False, with_child=False):
    """rebinds the seams of halmos.processes to the scheduler-owned world; returns (ctx, restore())"""
    import concurrent.futures._base as cfb

    import halmos.processes as P

    thr = sched.make_threading(sch)
    env = sched.SimEnv(sch, scripts, allow_spawn_failure=spawn_failure, with_child=with_child)
    conc, pool = sched.make_futures(sch, thr)
    saved = (P.threading, P.Popen, P.psutil, P.time, P.concurrent, cfb.threading)
    saved_registry = P.ExecutorRegistry._instance
    P.ExecutorRegistry._instance = None  # a fresh registry per execution (the singleton would remember executors of earlier executions)
    P.threading = thr
    P.Popen = env.Popen
    P.psutil = env.psutil()
    P.time = type("T", (), {"time": staticmethod(env.time)})
    P.concurrent = conc
    cfb.threading = thr

    def restore():
        P.threading, P.Popen, P.psutil, P.time, P.concurrent, cfb.threading = saved
        P.ExecutorRegistry._instance = saved_registry

    c = Ctx()
    c.P, c.thr, c.env, c.sch, c.pool = P, thr, env, sch, pool
    c.obs = []
    return c, restore


def get_result(c, fut, who):
    """waiter body: records what result() delivers"""
    try:
        r = fut.result()
        c.obs.append((who, "result", r))
    except subprocess.TimeoutExpired:
        c.obs.append((who, "timeout", None))
    except BaseException as e:  # noqa
        if isinstance(e, sched._Abort):
            raise
        c.obs.append((who, "exception", type(e).__name__))


# ---------------------------------------------------------------------------
# harnesses: name -> (scripts, spawn_failure, body(c))
# ---------------------------------------------------------------------------


def graceful_shutdown(c, ex):
    """shutdown(wait=True): must wait for every job and must not fail with one job's own exception (recorded; see invariants)"""
    try:
        ex.shutdown(wait=True)
    except BaseException as e:  # noqa
        if isinstance(e, sched._Abort):
            raise
        c.obs.append(("shutdown", "raised", type(e).__name__))
    c.sch.note("shutdown-returned-wait")


def h_race(c, wait=False):
    """a job is submitted by one thread while another shuts the executor down"""
    P = c.P
    ex = P.PopenExecutor()
    f1 = P.PopenFuture(["solver", "q1"])
    c.futs = [f1]

    def submitter():
        try:
            ex.submit(f1)
            c.obs.append(("submit1", "accepted", None))
        except P.ShutdownError:
            c.obs.append(("submit1", "refused", None))
            return
        get_result(c, f1, "w1")

    t = c.thr.Thread(target=submitter)
    t.start()
    if wait:
        graceful_shutdown(c, ex)
    else:
        ex.shutdown(wait=False)
        c.sch.note("shutdown-returned")
    t.join()


def h_wait(c):
    """two jobs, graceful shutdown, an independent waiter"""
    P = c.P
    ex = P.PopenExecutor()
    f1, f2 = P.PopenFuture(["solver", "q1"]), P.PopenFuture(["solver", "q2"])
    c.futs = [f1, f2]
    ex.submit(f1)
    ex.submit(f2)
    t = c.thr.Thread(target=lambda: get_result(c, f2, "w2"))
    t.start()
    graceful_shutdown(c, ex)
    get_result(c, f1, "w1")
    t.join()


def h_timeout(c):
    """a job with a time limit; the waiter must see TimeoutExpired iff the limit expired"""
    P = c.P
    ex = P.PopenExecutor()
    f1 = P.PopenFuture(["solver", "q1"], timeout=5)
    c.futs = [f1]
    ex.submit(f1)
    get_result(c, f1, "w1")
    graceful_shutdown(c, ex)


def h_wait_timeout(c):
    """two jobs, the first with a time limit; a graceful shutdown must wait for both, whatever happens to the first"""
    P = c.P
    ex = P.PopenExecutor()
    f1, f2 = P.PopenFuture(["solver", "q1"], timeout=5), P.PopenFuture(["solver", "q2"])
    c.futs = [f1, f2]
    ex.submit(f1)
    ex.submit(f2)
    graceful_shutdown(c, ex)
    get_result(c, f1, "w1")
    get_result(c, f2, "w2")


def h_after(c):
    """submission after shutdown has returned must be refused"""
    P = c.P
    ex = P.PopenExecutor()
    f1, f2 = P.PopenFuture(["solver", "q1"]), P.PopenFuture(["solver", "q2"])
    c.futs = [f1]
    ex.submit(f1)
    ex.shutdown(wait=False)
    c.sch.note("shutdown-returned")
    try:
        ex.submit(f2)
        c.obs.append(("submit2", "accepted", None))
    except P.ShutdownError:
        c.obs.append(("submit2", "refused", None))
    get_result(c, f1, "w1")


def h_double(c):
    """a graceful shutdown in progress and then a forceful one (early exit racing the end of a test)"""
    P = c.P
    ex = P.PopenExecutor()
    f1 = P.PopenFuture(["solver", "q1"])
    c.futs = [f1]
    ex.submit(f1)

    def graceful():
        graceful_shutdown(c, ex)

    t = c.thr.Thread(target=graceful)
    t.start()
    ex.shutdown(wait=False)
    c.sch.note("shutdown-returned")
    get_result(c, f1, "w1")
    t.join()


def h_double_registry(c):
    """as h_double, but the forceful shutdown comes through the registry (what halmos's exit handler calls): an executor whose graceful
    shutdown is in progress must still be shut down by it"""
    P = c.P
    ex = P.PopenExecutor()
    P.ExecutorRegistry().register(ex)  # as halmos.solve.FunctionContext does for its executor
    f1 = P.PopenFuture(["solver", "q1"])
    c.futs = [f1]
    ex.submit(f1)

    def graceful():
        graceful_shutdown(c, ex)

    t = c.thr.Thread(target=graceful)
    t.start()
    P.ExecutorRegistry().shutdown_all()
    c.sch.note("shutdown-returned")
    get_result(c, f1, "w1")
    t.join()


def h_two_submitters(c):
    """two submitting threads and a forceful shutdown"""
    P = c.P
    ex = P.PopenExecutor()
    f1, f2 = P.PopenFuture(["solver", "q1"]), P.PopenFuture(["solver", "q2"], timeout=5)
    c.futs = [f1, f2]

    def sub(f, tag):
        try:
            ex.submit(f)
            c.obs.append((f"submit{tag}", "accepted", None))
        except P.ShutdownError:
            c.obs.append((f"submit{tag}", "refused", None))
            return
        get_result(c, f, f"w{tag}")

    t1 = c.thr.Thread(target=lambda: sub(f1, 1))
    t2 = c.thr.Thread(target=lambda: sub(f2, 2))
    t1.start()
    t2.start()
    ex.shutdown(wait=False)
    c.sch.note("shutdown-returned")
    t1.join()
    t2.join()


def h_solve(c, concurrent_shutdown=False, limit="5s", refine=False):
    """halmos.solve.solve_low_level on a scripted solver: a time limit that expires must give `unknown`, never `unsat`.
    refine=True: solve_end_to_end on a query whose first answer is `sat` with an invalid model, so that a second (refined) solver job is
    issued: that job belongs to the same executor (a shutdown kills it / refuses it)"""
    from z3 import unknown, unsat

    import halmos.solve as S
    from halmos.sevm import SMTQuery
    from mc import e2e

    args = e2e.mk_config({"solver_timeout_assertion": limit, "solver_command": "scripted-solver"})
    c.limit = args.solver_timeout_assertion
    d = tempfile.mkdtemp(prefix="c17_", dir=e2e.workdir())
    c.tmp = d

    import pathlib

    sctx = S.SolvingContext(dump_dir=pathlib.Path(d))
    c.futs = []
    text = "(assert true)"
    if refine:
        text = "(declare-fun f_evm_bvmul_256 ((_ BitVec 256) (_ BitVec 256)) (_ BitVec 256))\n(declare-const x (_ BitVec 256))\n(assert (= (f_evm_bvmul_256 x x) (_ bv4 256)))"
    pc = S.PathContext(args=args, path_id=0, solving_ctx=sctx, query=SMTQuery(text, {}))

    def shutter():
        sctx.executor.shutdown(wait=False)
        c.sch.note("shutdown-returned")

    t = None
    if concurrent_shutdown:
        t = c.thr.Thread(target=shutter)
        t.start()
    try:
        out = S.solve_end_to_end(pc) if refine else S.solve_low_level(pc)
        c.obs.append(("solve", "output", str(out.result)))
    except BaseException as e:  # noqa
        if isinstance(e, sched._Abort):
            raise
        c.obs.append(("solve", "exception", type(e).__name__))
        c.solve_exc = repr(e)
    if t:
        t.join()
    c.futs = list(sctx.executor.futures)


UNSAT = ("unsat\n", "", 0)
SAT_INVALID = ("sat\n(\n  (define-fun f_evm_bvmul_256 ((x!0 (_ BitVec 256)) (x!1 (_ BitVec 256))) (_ BitVec 256) #x00)\n)\n", "", 0)
HARNESSES = {
    "race": ([UNSAT], False, h_race),
    "race-wait": ([UNSAT], False, lambda c: h_race(c, wait=True)),
    "wait2": ([UNSAT, ("sat\n", "", 0)], False, h_wait),
    "timeout": ([UNSAT], False, h_timeout),
    "wait-timeout": ([UNSAT, UNSAT], False, h_wait_timeout),
    "after": ([UNSAT, UNSAT], False, h_after),
    "double": ([UNSAT], False, h_double),
    "double-registry": ([UNSAT], False, h_double_registry),
    "two-submitters": ([UNSAT, UNSAT], False, h_two_submitters),
    "spawn-failure": ([UNSAT], True, h_timeout),
    "solve": ([UNSAT], False, h_solve),
    "solve-shutdown": ([UNSAT], False, lambda c: h_solve(c, True)),
    "solve-300ms": ([UNSAT], False, lambda c: h_solve(c, False, "300ms")),
    "solve-nolimit": ([UNSAT], False, lambda c: h_solve(c, False, "0")),
    # the solver process has a child of its own that may exit at any moment (signalling it then raises NoSuchProcess)
    "child-race": ([UNSAT], "child", h_race),
    "child-timeout": ([UNSAT], "child", h_timeout),
    "refine": ([SAT_INVALID, UNSAT], False, lambda c: h_solve(c, False, refine=True)),
    "refine-shutdown": ([SAT_INVALID, UNSAT], False, lambda c: h_solve(c, True, refine=True)),
}


def run_one(hname, choices):
    scripts, spawn_failure, body = HARNESSES[hname]
    sch = sched.Scheduler(choices=choices, trace_files=TRACE, horizon=6000, trace_funcs=TRACE_FUNCS)
    c, restore = install(sch, scripts, spawn_failure is True, with_child=(spawn_failure == "child"))
    exc = None
    try:
        sch.run(lambda: body(c))
    except (sched.Deadlock, sched.Horizon, sched.ReplayDivergence) as e:
        exc = e
    finally:
        restore()
        if getattr(c, "tmp", None):
            shutil.rmtree(c.tmp, ignore_errors=True)
    sch.ctx = c
    return sch, exc


# ---------------------------------------------------------------------------
# invariants
# ---------------------------------------------------------------------------


def invariants(hname, sch, exc):
    """list of (key, message)"""
    c = sch.ctx
    bad = []
    if isinstance(exc, sched.ReplayDivergence):
        raise exc
    if isinstance(exc, sched.Deadlock):
        bad.append(("deadlock", f"deadlock: {exc}; observations {c.obs}"))
        return bad
    if isinstance(exc, sched.Horizon):
        bad.append(("livelock", f"no termination within the horizon: {exc}"))
        return bad
    for name, e in sch.uncaught:
        bad.append((f"uncaught:{type(e).__name__}", f"uncaught {type(e).__name__}: {e} in thread {name}"))
    log = sch.log
    # after a shutdown has returned no simulated process keeps running: nobody is (still, or newly) waiting on a live process.
    # (a process created in the window between cancel() and the worker's own cancellation check is killed before anybody waits on it)
    blocks = [(int(l.split(":")[1]), st) for l, st in log if l.startswith("comm-block:")]
    for label, step in log:
        if label.startswith("shutdown-returned"):
            for pid, b in blocks:
                p = c.env.procs[pid - 1000]
                end = p.exit_step if p.exit_step is not None else 10**9
                if b >= step:
                    bad.append(("waiting-after-shutdown", f"process {p.pid} (spawned at step {p.spawn_step}) is waited on at step {b} while running, after {label} at step {step}"))
                elif end > step:
                    bad.append(("alive-after-shutdown", f"process {p.pid} is still running and waited on when {label} (spawned at step {p.spawn_step}, exit at {p.exit_step}, shutdown returned at {step})"))
    for who, kind, val in c.obs:
        if who == "shutdown" and kind == "raised":
            bad.append(("shutdown-raised", f"shutdown(wait=True) failed with a job's own exception ({val}) instead of waiting for the remaining jobs"))
    for p in c.env.procs:
        if p.state == "running":
            bad.append(("alive-at-end", f"process {p.pid} is still running when every thread has finished"))
        ch = getattr(p, "child", None)
        if ch is not None and ch.state == "running" and p.returncode is not None and p.returncode < 0:
            bad.append(("child-alive-at-end", f"solver process {p.pid} was killed ({p.returncode}) but its child process {ch.pid} is still running"))
    # submit after shutdown returned is refused
    for who, kind, val in c.obs:
        if who == "submit2" and hname == "after" and kind != "refused":
            bad.append(("accepted-after-shutdown", "submit() after shutdown() returned was accepted"))
    # every accepted future is completed, and its waiters got an answer consistent with the environment
    timeouts = {int(l.split(":")[1]) for l, _ in log if l.startswith("timeout:")}
    for i, f in enumerate(getattr(c, "futs", [])):
        started = f.start_time is not None or f.process is not None or f.done()
        accepted = any(w == f"submit{i + 1}" and k == "accepted" for w, k, _ in c.obs) or hname not in ("race", "race-wait", "two-submitters", "child-race")
        if accepted and not f.done():
            bad.append(("not-delivered", f"future {i + 1} was accepted but never completed"))
    for who, kind, val in c.obs:
        if who.startswith("w") and kind == "result":
            idx = int(who[1:]) - 1
            f = c.futs[idx] if idx < len(c.futs) else None
            pid = f.process.pid if f is not None and f.process is not None else None
            if pid in timeouts:
                bad.append(("timeout-as-result", f"job {idx + 1}: its time limit expired but result() returned {val!r} instead of raising TimeoutExpired"))
            if val is not None and val[2] == 0 and val[0] != c.env.procs[pid - 1000].script[0]:
                bad.append(("wrong-output", f"job {idx + 1}: result {val!r} differs from the process output"))
    if hname.startswith("solve"):
        outs = [(k, v) for w, k, v in c.obs if w == "solve"]
        fired = bool(timeouts)
        shutdown = any(l.startswith("shutdown-returned") for l, _ in log)
        for k, v in outs:
            if k == "output" and fired and v != "unknown":
                bad.append(("timeout-not-unknown", f"solve_low_level returned {v} although the solver's time limit expired"))
            if k == "output" and v == "unsat" and any(l.startswith("terminated:") or l.startswith("exit:") and l.endswith(("-15", "-9")) for l, _ in log):
                bad.append(("killed-as-unsat", f"solve_low_level returned unsat for a solver process that was killed"))
            if k == "exception" and not shutdown and v not in ("ShutdownError",):
                bad.append((f"solve-exception:{v}", f"solve_low_level raised {v} without any shutdown"))
        if not outs:
            bad.append(("solve-no-answer", "solve_low_level neither returned nor raised"))
        # the limit handed to the subprocess layer is the configured one (0 = none)
        want = c.limit if c.limit else None
        for f in c.futs:
            if f.timeout != want or type(f.timeout) is bool:
                bad.append(("wrong-limit", f"--solver-timeout-assertion is {c.limit!r} s but the solver job was started with timeout={f.timeout!r}"))
    return bad


# ---------------------------------------------------------------------------
# exploration per shard
# ---------------------------------------------------------------------------


def explore_harness(acc, hname, bound, budget, roots=None):
    seen_outcomes = set()

    def on_exec(sch, exc):
        acc.count("executions")
        acc.count("points", len(sch.points))
        c = sch.ctx
        outcome = (hname, tuple(sorted((w, k) for w, k, _ in c.obs)), type(exc).__name__ if exc else None)
        acc.outcome(outcome)
        acc.state((hname, tuple(p.chosen for p in sch.points)))
        for key, msg in invariants(hname, sch, exc):
            choices = [p.chosen for p in sch.points]
            acc.violation(f"{hname}:{key}", f"harness {hname}: {msg}  [schedule: {len(choices)} points, deviations at {[(i, p.enabled[p.chosen]) for i, p in enumerate(sch.points) if p.chosen][:6]}]",
                          {"harness": hname, "choices": choices})

    n, capped = sched.explore(lambda ch: run_one(hname, ch), bound, on_exec, budget=budget, roots=roots)
    if capped:
        acc.capped = True
        acc.notes.append(f"{hname}: budget of {budget} executions hit at bound {bound}")
    return n


THOROUGH_ONLY = ["two-submitters"]
SMALL = ["race", "race-wait", "timeout", "after", "spawn-failure", "solve", "solve-300ms", "solve-nolimit", "child-race", "child-timeout"]


def bounds(tier, hname):
    """(deviation bound, budget of executions per shard)"""
    if tier == "quick":
        # the two submit-vs-shutdown races are small enough for two deviations in the quick tier (D27 needed two)
        return (2, 40000) if hname in ("race", "race-wait", "child-race", "child-timeout") else (1, 3000)
    return (2, 40000) if hname in SMALL else (1, 40000)


GROUPS = {"quick": 64, "thorough": 96}


def shards(tier, seed):
    out = []
    for h in HARNESSES:
        if tier == "quick" and h in THOROUGH_ONLY:
            continue
        b, budget = bounds(tier, h)
        sch, exc = run_one(h, [])
        roots = sched.alternatives(sch, 0, b)
        k = max(1, min(GROUPS[tier], len(roots) // 3))
        out.append({"kind": "explore", "harness": h, "bound": b, "budget": budget, "roots": [[]], "expand": False})
        for i in range(k):
            grp = roots[i::k]
            if grp:
                out.append({"kind": "explore", "harness": h, "bound": b, "budget": budget, "roots": grp, "expand": True})
    out.append({"kind": "conformance"})
    return rotate(out, seed)


# ---------------------------------------------------------------------------
# free-running conformance pass (real threads, real subprocesses)
# ---------------------------------------------------------------------------


def registration(acc):
    """every FunctionContext's executor is known to the registry (whose shutdown_all() is the global shutdown request), with the query
    files in a temporary directory and with --dump-smt-directory"""
    import z3

    import halmos.processes as P
    from halmos.calldata import FunctionInfo
    from halmos.solve import ContractContext, FunctionContext
    from mc import e2e

    for label, opts in (("temporary directory", {}), ("--dump-smt-directory", {"dump_smt_directory": tempfile.mkdtemp(prefix="c17dump_", dir=e2e.workdir())})):
        for k in range(2):
            args = e2e.mk_config(dict(opts, solver_command="scripted-solver"))
            cctx = ContractContext(args=args, name="C", funsigs=[f"check_{k}()"], creation_hexcode="", deployed_hexcode="", abi={}, method_identifiers={},
                                   contract_json={}, libs={}, build_out_map={})
            fctx = FunctionContext(args=args, info=FunctionInfo("C", f"check_{k}", f"check_{k}()", "00000000"), solver=z3.Solver(), contract_ctx=cctx)
            acc.count("registration_cases")
            ex = fctx.solving_ctx.executor
            if ex not in P.ExecutorRegistry()._executors:
                acc.violation(f"unregistered:{label}", f"the solver executor of a test function run with {label} is not registered with ExecutorRegistry: shutdown_all() (exit, ctrl-c) "
                              "neither stops its solver processes nor refuses new jobs", {"conformance": True})
                return
            P.ExecutorRegistry().shutdown_all()
            if not ex.is_shutdown():
                acc.violation(f"not-shut-down:{label}", f"after ExecutorRegistry().shutdown_all() the executor of a test function run with {label} still accepts jobs", {"conformance": True})
                return
    acc.state(("registration",))


def conformance(acc):
    registration(acc)
    import halmos.processes as P

    def scenario(cmd, timeout, shutdown_wait, expect):
        ex = P.PopenExecutor()
        f = P.PopenFuture(cmd, timeout=timeout)
        ex.submit(f)
        if shutdown_wait is False:
            time.sleep(0.05)
            ex.shutdown(wait=False)
        try:
            r = f.result(timeout=10)
            got = ("result", r[2] == 0, (r[0] or "").strip())
        except subprocess.TimeoutExpired:
            got = ("timeout",)
        except Exception as e:
            got = ("exception", type(e).__name__)
        if shutdown_wait is True:
            try:
                ex.shutdown(wait=True)
            except (subprocess.TimeoutExpired, OSError) as e:
                acc.violation(f"conformance:shutdown-raised:{' '.join(cmd)}", f"real executor: shutdown(wait=True) failed with the job's own exception {e!r}", {"conformance": True})
        alive = f.is_running()
        acc.count("conformance_runs")
        alts = expect if isinstance(expect[0], tuple) else (expect,)
        if not any(got[: len(e)] == e for e in alts) or alive:
            acc.violation(f"conformance:{' '.join(cmd)}:{timeout}:{shutdown_wait}", f"real subprocess {cmd} timeout={timeout} shutdown(wait={shutdown_wait}): observed {got}, alive={alive}; the simulation assumes {expect}", {"conformance": True})
        try:
            ex.submit(P.PopenFuture(["true"]))
            if shutdown_wait is not None:
                acc.violation("conformance:submit-after-shutdown", "real executor accepted a job after shutdown", {"conformance": True})
        except P.ShutdownError:
            pass

    scenario(["echo", "unsat"], None, True, ("result", True, "unsat"))
    scenario(["echo", "unsat"], 5, True, ("result", True, "unsat"))
    scenario(["sleep", "3"], 0.2, True, ("timeout",))
    # killed by shutdown(wait=False): communicate() returns empty output (returncode -15, or 0 when psutil reaped the child first),
    # or fails with EBADF because cancel() closed the pipes under it
    scenario(["sleep", "3"], None, False, (("result", False), ("result", True, ""), ("exception", "OSError"), ("exception", "ValueError"), ("exception", "CancelledError")))
    scenario(["sh", "-c", "echo sat; exit 3"], None, True, ("result", False, "sat"))
    scenario(["/nonexistent/solver"], None, True, ("exception", "FileNotFoundError"))
    acc.sample({"conformance": "real PopenExecutor with echo/sleep/sh subprocesses: results, TimeoutExpired, kill on shutdown(wait=False), spawn failure"})


def run_shard(shard):
    from mc import hdriver

    hdriver.install_logging()
    acc = Acc(max_violations=20)
    if shard["kind"] == "conformance":
        conformance(acc)
        return acc.result()
    h = shard["harness"]
    if not shard["expand"]:
        # the default schedule itself (its alternatives are the roots of the other shards)
        explore_harness(acc, h, -1, 1)
        sch, exc = run_one(h, [])
        acc.sample({"harness": h, "default_schedule_points": len(sch.points), "first_points": [p.enabled for p in sch.points[:4]],
                    "observations": [(w, k) for w, k, _ in sch.ctx.obs], "log": sch.log[:8]})
    else:
        explore_harness(acc, h, shard["bound"], shard["budget"], roots=shard["roots"])
    acc.count(f"bound_{h}", 0)
    return acc.result()


def coverage(tier, merged):
    c = merged["counts"]
    b = 1 if tier == "quick" else 2
    return {
        "states": len(merged["states"]),
        "transitions": c.get("points", 0),
        "traces_validated_against_impl": c.get("executions", 0),
        "schedules_executed": c.get("executions", 0),
        "scheduling_points_total": c.get("points", 0),
        "deviation_bound_completed": {h: (bounds(tier, h)[0] if not merged["capped"] else bounds(tier, h)[0] - 1) for h in HARNESSES},
        "preemption_bound_completed": min(bounds(tier, h)[0] for h in HARNESSES) if not merged["capped"] else 0,
        "harnesses": list(HARNESSES),
        "conformance_runs_with_real_subprocesses": c.get("conformance_runs", 0),
        "exhaustive": not merged["capped"],
        "rule": "states = distinct complete schedules (choice sequences) executed on the real processes.py under the cooperative scheduler; transitions = scheduling points taken; "
                "every execution is an implementation execution (no separate model), invariants are evaluated on each",
    }


def replay(case):
    from mc import hdriver

    hdriver.install_logging()
    if case.get("conformance"):
        acc = Acc()
        conformance(acc)
        v = acc.result()["violations"]
        return {"violated": bool(v), "obs": [x["what"] for x in v][:3], "key": v[0]["key"] if v else ""}
    sch, exc = run_one(case["harness"], case["choices"])
    bad = invariants(case["harness"], sch, exc)
    return {"violated": bool(bad), "obs": [m for _, m in bad][:3] + [str([(w, k) for w, k, _ in sch.ctx.obs])], "key": f"{case['harness']}:{bad[0][0]}" if bad else ""}
