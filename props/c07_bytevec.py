"""C07 - byte sequences behave as a flat zero-extended byte array.

Explicit-state exploration: a state is the history of operations that reaches
it; every history up to the depth bound over the alphabet below is replayed on
fresh real `ByteVec` objects (optionally through `sevm.State`) and, in lock
step, on a flat Python list.  After every operation every byte of every live
object is compared.
"""

from __future__ import annotations

import itertools

from mc.core import Acc, digest, rotate

ID = "C07"
LEVEL = "model_checking"
ASSUMPTIONS = [
    "offsets in {0,1,2,31,32,33,64}, lengths in {1,2,32,33}: writes land on chunk boundaries, inside chunks, across chunks and past the end",
    "symbolic bytes are compared under one valuation in which all symbolic bytes are pairwise distinct (and, for Bool words, both truth values)",
    "reference model: Python list of atoms (int | (symbol, byte index)); reads past the end give 0; length = highest offset written",
    "random histories beyond the depth bound (sampling) are not claimed",
]

OFFS_FULL = [0, 1, 2, 31, 32, 33, 64]
LENS_FULL = [1, 2, 32, 33]
OFFS_RED = [0, 1, 32, 33]
LENS_RED = [1, 32, 33]
OFFS_MIN = [0, 1, 32]
LENS_MIN = [1, 32]


def alphabet(kind):
    if kind == "full":
        offs, lens = OFFS_FULL, LENS_FULL
        srcs = ["bytes", "sym", "self0", "self1", "self33", "bv1", "bv2"]
        bytek, wordk = ["c", "s"], ["int", "sym", "bool"]
        apps = ["b1", "b32", "s32", "bv"]
    elif kind == "reduced":
        offs, lens = OFFS_RED, LENS_RED
        srcs = ["bytes", "sym", "self1", "bv2"]
        bytek, wordk = ["c", "s"], ["int", "sym"]
        apps = ["b1", "bv"]
    else:  # minimal
        offs, lens = OFFS_MIN, LENS_MIN
        srcs = ["sym", "self1", "bv2"]
        bytek, wordk = ["c"], ["sym"]
        apps = ["bv"]
    L = []
    for o in offs:
        for k in bytek:
            L.append(("byte", o, k))
    for o in offs:
        for k in wordk:
            L.append(("word", o, k))
    for o in offs:
        for n in lens:
            for s in srcs:
                L.append(("slice", o, n, s))
    for k in apps:
        L.append(("append", k))
    L.append(("copy_keep",))
    L.append(("copy_switch",))
    L.append(("poke_src",))
    L.append(("poke_read", 0, 33))
    L.append(("poke_read", 1, 32))
    return L


# ---------------------------------------------------------------------------
# running one history on the real objects and on the reference
# ---------------------------------------------------------------------------


class Disagree(Exception):
    def __init__(self, aspect, detail):
        self.aspect, self.detail = aspect, detail
        super().__init__(f"{aspect}: {detail}")


def symval(step, k):
    """value of byte k of the symbol created at history position `step`"""
    return (0x80 + 37 * step + k) % 256 or 0x80


class World:
    def __init__(self, via):
        from halmos.bytevec import ByteVec

        self.via = via
        self.BV = ByteVec
        if via == "state":
            from halmos.sevm import State

            self.state = State()
            self.a = self.state.memory
        else:
            self.state = None
            self.a = ByteVec()
        self.ra = []  # reference content of a
        self.frozen = []  # (name, object, reference list) that must never change
        self.src = None  # (object, ref) last ByteVec passed as a source
        self.subst = []  # (z3 const, z3 value)
        self.step = 0

    # -- symbols ---------------------------------------------------------------
    def fresh(self, nbytes):
        import z3

        name = f"s{self.step}_{nbytes}"
        v = z3.BitVec(name, nbytes * 8)
        val = bytes(symval(self.step, k) for k in range(nbytes))
        self.subst.append((v, z3.BitVecVal(int.from_bytes(val, "big"), nbytes * 8)))
        return v, [("sym", name, k, val[k]) for k in range(nbytes)]

    def fresh_bool(self):
        import z3

        name = f"b{self.step}"
        v = z3.Bool(name)
        truth = self.step % 2 == 0
        self.subst.append((v, z3.BoolVal(truth)))
        return v, [0] * 31 + [("bool", name, 0, 1 if truth else 0)]

    # -- reference ops -----------------------------------------------------------
    @staticmethod
    def ref_write(ref, off, atoms):
        if off > len(ref):
            ref.extend([0] * (off - len(ref)))
        for i, at in enumerate(atoms):
            if off + i < len(ref):
                ref[off + i] = at
            else:
                ref.append(at)

    @staticmethod
    def ref_read(ref, start, stop):
        return [(ref[i] if i < len(ref) else 0) for i in range(start, stop)]

    def ref_expand(self, ref, start, n):
        """a read through State.mslice expands memory (zero-filled) as the EVM does; a plain ByteVec.slice does not change its operand"""
        if self.state is not None and n and start + n > len(ref):
            ref.extend([0] * (start + n - len(ref)))

    # -- apply one letter ----------------------------------------------------------
    def apply(self, letter):
        BV = self.BV
        a, ra = self.a, self.ra
        k = letter[0]
        if k == "byte":
            _, o, kind = letter
            if kind == "c":
                v, atoms = 0x11 + self.step, [0x11 + self.step]
            else:
                v, atoms = self.fresh(1)
            a.set_byte(o, v)
            self.ref_write(ra, o, atoms)
        elif k == "word":
            _, o, kind = letter
            if kind == "int":
                iv = int.from_bytes(bytes((0x20 + self.step * 3 + i) % 256 for i in range(32)), "big")
                v, atoms = iv, list(iv.to_bytes(32, "big"))
            elif kind == "sym":
                v, atoms = self.fresh(32)
            else:
                v, atoms = self.fresh_bool()
            a.set_word(o, v)
            self.ref_write(ra, o, atoms)
        elif k == "slice":
            _, o, n, src = letter
            if src == "bytes":
                data = bytes((0x40 + self.step * 5 + i) % 256 for i in range(n))
                v, atoms = data, list(data)
            elif src == "sym":
                v, atoms = self.fresh(n)
            elif src.startswith("self"):
                s = int(src[4:])
                atoms = self.ref_read(ra, s, s + n)
                v = self.state.mslice(s, n) if self.state is not None else a.slice(s, s + n)
                self.ref_expand(ra, s, n)
                if v is a:
                    # a read is a snapshot: handing out the live vector would make the write below copy the vector onto itself
                    raise Disagree("alias", f"reading [{s}, {s + n}) returned the vector object itself, not a copy")
            elif src == "bv1":
                data = bytes((0x50 + self.step * 7 + i) % 256 for i in range(n))
                v, atoms = BV(data), list(data)
                self.src = (v, list(atoms))
            else:  # bv2: two chunks, concrete then symbolic
                if n == 1:
                    data = bytes([0x5A + self.step])
                    v, atoms = BV(data), list(data)
                else:
                    sv, satoms = self.fresh(n - 1)
                    v = BV([bytes([0x5A + self.step]), sv])
                    atoms = [0x5A + self.step] + satoms
                self.src = (v, list(atoms))
            if self.state is not None and not isinstance(v, (bytes,)) and hasattr(v, "chunks"):
                self.state.set_mslice(o, v)
            else:
                a.set_slice(o, o + n, v)
            self.ref_write(ra, o, atoms)
        elif k == "append":
            kind = letter[1]
            if kind == "b1":
                data = bytes([0x70 + self.step])
                v, atoms = data, list(data)
            elif kind == "b32":
                data = bytes((0x71 + self.step + i) % 256 for i in range(32))
                v, atoms = data, list(data)
            elif kind == "s32":
                v, atoms = self.fresh(32)
            else:
                sv, satoms = self.fresh(2)
                v = BV([bytes([0x7A + self.step]), sv])
                atoms = [0x7A + self.step] + satoms
                self.src = (v, list(atoms))
            a.append(v)
            ra.extend(atoms)
        elif k in ("copy_keep", "copy_switch"):
            if self.state is not None:
                import copy as _copy

                st2 = _copy.deepcopy(self.state)
                c = st2.memory
            else:
                st2 = None
                c = a.copy()
            if k == "copy_keep":
                self.frozen.append((f"copy@{self.step}", c, list(ra)))
            else:
                self.frozen.append((f"orig@{self.step}", a, list(ra)))
                self.a = c
                self.ra = list(ra)
                if st2 is not None:
                    self.state = st2
        elif k == "poke_src":
            if self.src is not None:
                obj, ref = self.src
                obj.set_byte(0, 0x77)
                self.ref_write(ref, 0, [0x77])
        elif k == "poke_read":
            _, s, n = letter
            r = self.state.mslice(s, n) if self.state is not None else a.slice(s, s + n)
            rr = self.ref_read(ra, s, s + n)
            self.ref_expand(ra, s, n)
            r.set_byte(0, 0x66)
            self.ref_write(rr, 0, [0x66])
            self.frozen.append((f"read@{self.step}", r, rr))
        else:
            raise ValueError(letter)
        self.step += 1

    # -- observation -----------------------------------------------------------------
    def ground(self, v):
        import z3
        from halmos.bitvec import HalmosBitVec

        if isinstance(v, HalmosBitVec):
            v = v.unwrap()
        if isinstance(v, int):
            return v
        if isinstance(v, bytes):
            return int.from_bytes(v, "big")
        t = z3.simplify(z3.substitute(v, *self.subst)) if self.subst else z3.simplify(v)
        if z3.is_bv_value(t):
            return t.as_long()
        raise Disagree("ground", f"value not ground: {str(t)[:80]}")

    @staticmethod
    def atom_val(at):
        return at if isinstance(at, int) else at[3]

    def compare(self, name, obj, ref, deep):
        n = len(ref)
        if len(obj) != n:
            raise Disagree("length", f"{name}: len {len(obj)} expected {n}")
        # shape invariant
        cum = 0
        for start, chunk in obj.chunks.items():
            if len(chunk) == 0:
                raise Disagree("shape", f"{name}: empty chunk at {start}")
            if start != cum:
                raise Disagree("shape", f"{name}: non-contiguous chunk at {start} (expected {cum})")
            cum += len(chunk)
        if cum != n:
            raise Disagree("shape", f"{name}: chunk lengths add up to {cum}, length {n}")
        want = bytes(self.atom_val(at) for at in ref)
        # whole content through unwrap
        u = obj.unwrap()
        got = self.ground(u).to_bytes(n, "big") if n else (u if isinstance(u, bytes) else b"?")
        if got != want:
            raise Disagree("content", f"{name}: unwrap {got.hex()} expected {want.hex()}")
        if not deep:
            return
        # every byte and two past the end (short histories); for longer histories the offsets
        # around every chunk boundary and both ends (unwrap above already compared all content)
        if self.step <= 2:
            offsets = range(n + 2)
        else:
            offs = {0, 1, n - 1, n, n + 1}
            for start, chunk in obj.chunks.items():
                offs.update((start - 1, start, start + 1, start + len(chunk) - 1))
            offsets = sorted(o for o in offs if 0 <= o <= n + 1)
        for i in offsets:
            g = self.ground(obj.get_byte(i))
            w = want[i] if i < n else 0
            if g != w:
                raise Disagree("get_byte", f"{name}[{i}] = {g:#x} expected {w:#x}")
        # words and slices on a grid straddling the end
        for o in sorted({0, 1, 31, 33, max(0, n - 32), max(0, n - 1), n} if self.step <= 2 else {0, 1, max(0, n - 31), n}):
            w = int.from_bytes(bytes((want[i] if i < n else 0) for i in range(o, o + 32)), "big")
            g = self.ground(obj.get_word(o))
            if g != w:
                raise Disagree("get_word", f"{name}.get_word({o}) = {g:#x} expected {w:#x}")
        grid = ((0, n), (1, n + 1), (1, 2), (2, 33), (31, 34), (n, n + 3), (max(0, n - 1), n + 1))
        if self.step > 2:
            grid = ((1, n + 1), (2, 33), (max(0, n - 1), n + 1))
        for (s, e) in grid:
            if e <= s:
                continue
            sl = obj.slice(s, e)
            w = bytes((want[i] if i < n else 0) for i in range(s, e))
            if len(sl) != e - s:
                raise Disagree("slice", f"{name}.slice({s},{e}) has length {len(sl)}")
            g = self.ground(sl.unwrap()).to_bytes(e - s, "big")
            if g != w:
                raise Disagree("slice", f"{name}.slice({s},{e}) = {g.hex()} expected {w.hex()}")

    def observe(self, deep=True):
        self.compare("a", self.a, self.ra, deep)
        for name, obj, ref in self.frozen:
            self.compare(name, obj, ref, False)
        if self.src is not None:
            self.compare("src", self.src[0], self.src[1], False)

    def canon(self):
        shape = []
        for start, chunk in self.a.chunks.items():
            shape.append((start, type(chunk).__name__, len(chunk), getattr(chunk, "start", None), getattr(chunk, "data_byte_length", None)))
        content = tuple(at if isinstance(at, int) else at[:3] for at in self.ra)
        return digest((content, tuple(shape), len(self.frozen), self.src is not None))


def run_history(hist, via, deep_last_only=False):
    """replays hist on fresh objects; raises Disagree at the first disagreement.
    returns the World"""
    w = World(via)
    for idx, letter in enumerate(hist):
        try:
            w.apply(letter)
        except Disagree:
            raise
        except Exception as e:  # a ByteVec operation itself failed
            raise Disagree("exception", f"step {idx} {letter}: {type(e).__name__}: {e}") from e
        if deep_last_only and idx < len(hist) - 1:
            continue  # the prefix was observed when it was explored as a history of its own
        try:
            w.observe(deep=True)
        except Disagree as d:
            d.step = idx
            raise
        except Exception as e:
            raise Disagree("exception", f"reading after step {idx} {letter}: {type(e).__name__}: {e}") from e
    return w


def key_of(hist, d):
    last = hist[getattr(d, "step", len(hist) - 1)]
    return f"{d.aspect}:{'/'.join('.'.join(map(str, l)) for l in hist)}"


def shape_key(hist, d):
    """coarser key used to match known findings: aspect + the kinds of letters involved"""
    kinds = []
    for l in hist:
        if l[0] == "slice":
            kinds.append(f"slice-{l[3]}")
        else:
            kinds.append(l[0])
    return f"{d.aspect}:{'>'.join(kinds)}"


# ---------------------------------------------------------------------------
# exploration
# ---------------------------------------------------------------------------


def bounds(tier):
    # list of (alphabet kind, depth)
    if tier == "quick":
        return [("full", 2), ("reduced", 3)]
    return [("full", 3), ("reduced", 3), ("minimal", 4)]


def shards(tier, seed):
    out = []
    for kind, depth in bounds(tier):
        L = alphabet(kind)
        for via in ("bytevec", "state"):
            if via == "state" and kind == "full" and depth >= 3:
                continue  # State wrappers add nothing per letter; covered at the smaller bounds
            # shard by first letter (grouped to keep shard count reasonable)
            group = 1 if depth >= 3 else 8
            for i in range(0, len(L), group):
                out.append({"kind": kind, "depth": depth, "via": via, "first": list(range(i, min(len(L), i + group)))})
    return rotate(out, seed)


def explore(acc, L, prefix, depth, via):
    """DFS below `prefix` (already known to be fine) down to `depth` letters"""
    for letter in L:
        hist = prefix + [letter]
        acc.count("transitions")
        try:
            w = run_history(hist, via, deep_last_only=True)
        except Disagree as d:
            acc.outcome(("bad", d.aspect))
            acc.violation(
                key_of(hist, d) + f":{via}",
                f"history {hist} via {via}: {d}",
                {"hist": [list(l) for l in hist], "via": via},
            )
            continue
        acc.count("traces")
        new = acc.state(w.canon())
        acc.outcome((len(w.ra), len(w.a.chunks)))
        if len(hist) < depth:
            explore(acc, L, hist, depth, via)


def run_shard(shard):
    acc = Acc()
    L = alphabet(shard["kind"])
    for fi in shard["first"]:
        first = L[fi]
        hist = [first]
        acc.count("transitions")
        try:
            w = run_history(hist, shard["via"])
        except Disagree as d:
            acc.violation(key_of(hist, d) + f":{shard['via']}", f"history {hist} via {shard['via']}: {d}",
                          {"hist": [list(l) for l in hist], "via": shard["via"]})
            continue
        acc.count("traces")
        acc.state(w.canon())
        if shard["depth"] > 1:
            explore(acc, L, hist, shard["depth"], shard["via"])
    if shard["first"][0] == 0:
        acc.sample({"alphabet": shard["kind"], "via": shard["via"], "history": [list(L[0]), list(L[len(L) // 2]), list(L[-3])],
                    "checked": "len, chunk shape, unwrap, get_byte(all), get_word/slice grid, frozen copies, sources"})
    return acc.result()


def coverage(tier, merged):
    c = merged["counts"]
    bs = bounds(tier)
    return {
        "states": len(merged["states"]),
        "transitions": c.get("transitions", 0),
        "traces_validated_against_impl": c.get("traces", 0),
        "exhaustive": not merged["capped"],
        "bounds": [{"alphabet": k, "letters": len(alphabet(k)), "depth": d} for k, d in bs],
        "rule": "every operation sequence up to the depth bound over each alphabet, each replayed on fresh real ByteVec objects "
                "(directly and through sevm.State.mslice/set_mslice/__deepcopy__) and on a flat list; "
                "states = distinct (content, chunk structure) canonical forms; each transition is one real replay compared byte for byte",
    }


def replay(case):
    hist = [tuple(l) for l in case["hist"]]
    try:
        run_history(hist, case["via"])
    except Disagree as d:
        return {"violated": True, "obs": str(d), "key": key_of(hist, d) + f":{case['via']}"}
    return {"violated": False, "obs": "agrees"}
