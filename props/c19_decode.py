"""C19 - bytecode decoding and jump destinations.

Exhaustive sweep: every byte string up to a length bound over an 8-letter
alphabet (one representative per decoding class) x every placement of one
symbolic region [i,j) x three representations of the code (chunk list; one term or hex
string; window of a bigger, patched buffer), compared with a
20-line reference decoder; then jump programs through the real SEVM.run.
"""

from __future__ import annotations

import itertools
import time

from mc.core import Acc, rotate

ID = "C19"
LEVEL = "exploration"
ASSUMPTIONS = [
    "opcode alphabet reduced to one representative per decoding class: STOP, ADD, JUMPDEST, PUSH0, PUSH1, PUSH2, PUSH32, INVALID",
    "one symbolic region per code (concrete prefix / symbolic bytes / concrete suffix), as produced by constructor arguments and immutables",
    "a symbolic opcode byte is not decodable: halmos must raise NotConcreteError there, and jump-destination scanning legitimately stops",
    "symbolic bytes evaluated under one valuation with pairwise distinct byte values that differ from every alphabet byte",
    "random byte strings up to 4 KiB (sampling) are not claimed",
    "code slices past the end are also observed through the instructions: (EXT)CODECOPY of the running code with offsets around its end, MSIZE and CODESIZE afterwards (reads expand memory too: D4 of C01, fixed in fddab05)",
]

STOP, ADD, JUMPDEST, PUSH0, PUSH1, PUSH2, PUSH32, INVALID = 0x00, 0x01, 0x5B, 0x5F, 0x60, 0x61, 0x7F, 0xFE
ALPHABET = [STOP, ADD, JUMPDEST, PUSH0, PUSH1, PUSH2, PUSH32, INVALID]
SYMBYTE = [0xA1, 0xA2, 0xA3, 0xA4, 0xA5, 0xA6, 0xA7, 0xA8]


def insn_len_ref(op):
    return 1 + (op - 0x5F) if 0x60 <= op <= 0x7F else 1


def ref_jumpdests(code):
    """code: list of int | None (None = symbolic byte)"""
    out, pc, n = set(), 0, len(code)
    while pc < n:
        op = code[pc]
        if op is None:
            break
        if op == JUMPDEST:
            out.add(pc)
        pc += insn_len_ref(op)
    return out


def conc(code, i):
    """byte value under the fixed valuation; zero beyond the end"""
    if i >= len(code):
        return 0
    b = code[i]
    return b if b is not None else None


def mk_code(bs, i, j):
    return [None if i <= k < j else b for k, b in enumerate(bs)]


def valuate(code, i):
    """concrete bytes under the valuation (symbolic byte k of the region -> SYMBYTE[k])"""
    return [SYMBYTE[k - i] if b is None else b for k, b in enumerate(code)]


def build_contract(bs, i, j, rep):
    import z3
    from halmos.bytevec import ByteVec
    from halmos.contract import Contract

    n = j - i
    sym = z3.BitVec("c19_s", 8 * n) if n else None
    if rep == "chunks":
        parts = []
        if i > 0:
            parts.append(bytes(bs[:i]))
        if n:
            parts.append(sym)
        if j < len(bs):
            parts.append(bytes(bs[j:]))
        return Contract(ByteVec(parts)), sym
    if rep == "term":
        parts = []
        if i > 0:
            parts.append(z3.BitVecVal(int.from_bytes(bytes(bs[:i]), "big"), 8 * i))
        if n:
            parts.append(sym)
        if j < len(bs):
            parts.append(z3.BitVecVal(int.from_bytes(bytes(bs[j:]), "big"), 8 * (len(bs) - j)))
        term = parts[0] if len(parts) == 1 else z3.Concat(*parts)
        return Contract(term), sym
    if rep == "hex":
        return Contract.from_hexcode(bytes(bs).hex()), None
    if rep == "view":
        # the code is a window of a bigger buffer (a prefix of returned memory; a runtime template patched afterwards, as for immutables):
        # stale JUMPDEST / PUSH bytes follow the window, and the region was a run of JUMPDEST placeholders before it was overwritten
        junk = bytes([0x5B, 0x60, 0x5B, 0x5B])
        buf = bytearray(bs)
        buf[i:j] = bytes([0x5B]) * n
        big = ByteVec(bytes(buf) + junk)
        if n:
            big.set_slice(i, j, ByteVec(sym))
        return Contract(big.slice(0, len(bs))), sym
    raise ValueError(rep)


def ground(v, sym, symval):
    """evaluate a halmos byte/word value under the valuation -> int"""
    import z3
    from halmos.bitvec import HalmosBitVec, HalmosBool

    if isinstance(v, HalmosBitVec):
        v = v.unwrap()
    if isinstance(v, HalmosBool):
        v = v.unwrap()
    if isinstance(v, bool):
        return int(v)
    if isinstance(v, int):
        return v
    if isinstance(v, bytes):
        return int.from_bytes(v, "big")
    if sym is not None:
        v = z3.substitute(v, (sym, symval))
    v = z3.simplify(v)
    if z3.is_bv_value(v):
        return v.as_long()
    raise ValueError(f"not ground: {v}")


def check_contract(bs, i, j, rep):
    """returns list of (aspect, detail) disagreements"""
    import z3
    from halmos.exceptions import NotConcreteError

    code = mk_code(bs, i, j)
    val = valuate(code, i)
    n = len(bs)
    bad = []
    try:
        c, sym = build_contract(bs, i, j, rep)
    except Exception as e:  # noqa
        return [("construct", f"{type(e).__name__}: {e}")]
    symval = None
    if sym is not None:
        symval = z3.BitVecVal(int.from_bytes(bytes(SYMBYTE[: j - i]), "big"), 8 * (j - i))

    if len(c) != n:
        bad.append(("len", f"len={len(c)} expected {n}"))

    # jump destinations
    try:
        jd = set(c.valid_jumpdests())
    except Exception as e:
        jd = f"{type(e).__name__}: {e}"
    exp = ref_jumpdests(code)
    if jd != exp:
        bad.append(("jumpdests", f"got {jd} expected {sorted(exp)}"))

    # single bytes
    for k in range(n + 2):
        try:
            got = ground(c[k], sym, symval)
        except Exception as e:
            got = f"{type(e).__name__}: {e}"
        want = val[k] if k < n else 0
        if got != want:
            bad.append(("getitem", f"[{k}] got {got} expected {want}"))

    # instruction decoding at every pc (twice: cached path)
    for _round in (0, 1):
        for pc in range(n + 2):
            try:
                insn = c.decode_instruction(pc)
                got = ("ok", insn.opcode, insn.next_pc, insn.operand)
            except NotConcreteError:
                got = ("symbolic",)
            except Exception as e:
                got = ("exc", f"{type(e).__name__}: {e}")
            if pc >= n:
                if not (got[0] == "ok" and got[1] == STOP):
                    bad.append(("decode", f"pc={pc} beyond end: {got[:3]}"))
                continue
            op = code[pc]
            if op is None:
                if got[0] != "symbolic":
                    bad.append(("decode", f"pc={pc} symbolic opcode decoded as {got[:3]}"))
                continue
            ln = insn_len_ref(op)
            if got[0] != "ok":
                bad.append(("decode", f"pc={pc} op={op:#x}: {got}"))
                continue
            if got[1] != op or got[2] != pc + ln:
                bad.append(("decode", f"pc={pc} op={op:#x}: opcode/next_pc {got[1:3]} expected {(op, pc + ln)}"))
            if ln > 1:
                opbytes = [(val[k] if k < n else 0) for k in range(pc + 1, pc + ln)]
                want = int.from_bytes(bytes(opbytes), "big")
                try:
                    gv = ground(got[3], sym, symval)
                    sz = getattr(got[3], "size", 256)
                except Exception as e:
                    gv, sz = f"{type(e).__name__}: {e}", None
                if gv != want or sz != 256:
                    bad.append(("operand", f"pc={pc} op={op:#x}: operand {gv} size {sz} expected {want}"))
            elif got[3] is not None and op != PUSH0:
                bad.append(("operand", f"pc={pc} op={op:#x}: unexpected operand {got[3]}"))

    # slices over a grid straddling the prefix end and the code end
    for start in range(n + 2):
        for size in range(0, n + 3):
            want = bytes((val[k] if k < n else 0) for k in range(start, start + size))
            try:
                s = c.slice(start, size)
                if len(s) != size:
                    got = f"len {len(s)}"
                else:
                    u = s.unwrap()
                    got = ground(u, sym, symval).to_bytes(size, "big") if size else (u if isinstance(u, bytes) else b"?")
            except Exception as e:
                got = f"{type(e).__name__}: {e}"
            if got != want:
                bad.append(("slice", f"slice({start},{size}) got {got!r} expected {want!r}"))
    return bad


# ---------------------------------------------------------------------------
# jump programs through SEVM.run
# ---------------------------------------------------------------------------

_SEVM = {}


def _mk_sevm():
    if "sevm" not in _SEVM:
        from halmos.__main__ import mk_solver
        from halmos.calldata import FunctionInfo
        from halmos.config import default_config
        from halmos.sevm import SEVM

        args = default_config()
        _SEVM["args"] = args
        _SEVM["sevm"] = SEVM(args, FunctionInfo("C", "t", "t()", "f8a8fd6d"))
    return _SEVM["sevm"], _SEVM["args"]


def run_code(contract, sym_value=False):
    """run contract code with empty calldata, returns list of (errclass|None, returndata bytes|str)
    (with sym_value: callvalue is a symbol v and each entry also says whether the path admits v=0 / v=1)"""
    import z3
    from halmos.__main__ import mk_block, mk_solver
    from halmos.bytevec import ByteVec
    from halmos.sevm import CallContext, Message, Path
    from halmos.utils import EVM

    sevm, args = _mk_sevm()
    this = z3.BitVecVal(0xAAAA, 160)
    msg = Message(
        target=this,
        caller=z3.BitVecVal(0xBBBB, 160),
        origin=z3.BitVecVal(0xBBBB, 160),
        value=z3.BitVec("v", 256) if sym_value else z3.BitVecVal(0, 256),
        data=ByteVec(),
        call_scheme=EVM.CALL,
    )
    ex = sevm.mk_exec(
        code={this: contract},
        storage={this: sevm.mk_storagedata()},
        transient_storage={this: sevm.mk_storagedata()},
        balance=z3.K(z3.BitVecSort(160), z3.BitVecVal(0, 256)),
        block=mk_block(),
        context=CallContext(msg),
        pgm=contract,
        path=Path(mk_solver(args)),
    )
    out = []
    for e in sevm.run(ex):
        o = e.context.output
        err = type(o.error).__name__ if o.error is not None else None
        data = o.data
        if data is not None:
            data = data.unwrap() if hasattr(data, "unwrap") else data
            data = data.hex() if isinstance(data, bytes) else str(data)
        if sym_value:
            v = z3.BitVec("v", 256)
            adm = []
            for val in (0, 1):
                ok = True
                for c in e.path.conditions:
                    g = z3.simplify(z3.substitute(c, (v, z3.BitVecVal(val, 256))))
                    if z3.is_false(g):
                        ok = False
                    elif not z3.is_true(g):
                        raise RuntimeError(f"cannot ground path condition {c}")
                adm.append(ok)
            out.append((err, data, adm[0], adm[1]))
        else:
            out.append((err, data))
    return out


def jump_program(bs, target, cond):
    """PUSH1 target ; [PUSH1 cond;swap->] JUMP/JUMPI ; <bs placed at offset base> ; after the body a
    marker epilogue.  The body `bs` starts at a known base; `target` is an absolute pc.
    If the jump is taken to a valid JUMPDEST we want to observe that it did not fail with
    InvalidJumpDest; what happens afterwards is whatever the body does (reference-interpreted)."""
    if cond is None:
        head = [PUSH1, target, 0x56]  # JUMP
    elif cond == "sym":
        head = [0x34, 0x80, 0x50, PUSH1, target, 0x57]  # CALLVALUE DUP1 POP ; JUMPI on a symbolic condition (same length as the concrete head)
    else:
        head = [PUSH1, cond, PUSH1, target, 0x57]  # JUMPI (dest on top)
    return head + list(bs), len(head)


def ref_run(code, max_steps=200):
    """tiny reference interpreter for the alphabet + JUMP/JUMPI/PUSH: returns 'stop' | 'badjump' | 'invalid' | 'underflow'"""
    n = len(code)
    jd = ref_jumpdests(code)
    pc, stack = 0, []
    for _ in range(max_steps):
        if pc >= n:
            return "stop"
        op = code[pc]
        if op == STOP:
            return "stop"
        if op == INVALID:
            return "invalid"
        if op == ADD:
            if len(stack) < 2:
                return "underflow"
            a, b = stack.pop(), stack.pop()
            stack.append((a + b) % 2**256)
            pc += 1
        elif op == JUMPDEST:
            pc += 1
        elif op == PUSH0:
            stack.append(0)
            pc += 1
        elif 0x60 <= op <= 0x7F:
            ln = op - 0x5F
            data = [(code[k] if k < n else 0) for k in range(pc + 1, pc + 1 + ln)]
            stack.append(int.from_bytes(bytes(data), "big"))
            pc += 1 + ln
        elif op == 0x56:
            if len(stack) < 1:
                return "underflow"
            t = stack.pop()
            if t not in jd:
                return "badjump"
            pc = t
        elif op == 0x57:
            if len(stack) < 2:
                return "underflow"
            t, c = stack.pop(), stack.pop()
            if c != 0:
                if t not in jd:
                    return "badjump"
                pc = t
            else:
                pc += 1
        else:
            raise ValueError(op)
    return "loop"


ERRMAP = {
    None: "stop",
    "InvalidJumpDestError": "badjump",
    "InvalidOpcode": "invalid",
    "StackUnderflowError": "underflow",
}


def check_jump_sym(bs, target):
    """JUMPI whose condition is the (symbolic) call value: for v in {0,1} every reported path admitting v must end like the
    reference run with that concrete condition, and some path must admit it"""
    from halmos.contract import Contract

    prog, base = jump_program(bs, target, "sym")
    wants = []
    for val in (0, 1):
        wants.append(ref_run(concrete_equiv(bs, target, val)))
    if "loop" in wants:
        return None, tuple(wants), None
    try:
        res = run_code(Contract.from_hexcode(bytes(prog).hex()), sym_value=True)
    except Exception as e:
        return f"exception {type(e).__name__}: {e}", tuple(wants), None
    for val in (0, 1):
        adm = [r for r in res if r[2 + val]]
        if not adm:
            return f"no path admits callvalue={val}: {res}", tuple(wants), res
        for r in adm:
            got = ERRMAP.get(r[0], r[0])
            if got != wants[val]:
                return f"callvalue={val}: got {got} expected {wants[val]}", tuple(wants), res
    return None, tuple(wants), res


def concrete_equiv(bs, target, val):
    """same layout as the symbolic program (6-byte head) with the condition made concrete: PUSH1 val DUP1 POP would be 4 bytes, so
    use PUSH2 00 val (3 bytes) + JUMPDEST-free filler: PUSH2 0x00 val ; PUSH1 target ; JUMPI = 6 bytes"""
    return [0x61, 0x00, val, PUSH1, target, 0x57] + list(bs)


def check_jump(bs, target, cond):
    from halmos.contract import Contract

    if cond == "sym":
        return check_jump_sym(bs, target)
    prog, base = jump_program(bs, target, cond)
    want = ref_run(prog)
    if want == "loop":
        return None, want, None
    try:
        res = run_code(Contract.from_hexcode(bytes(prog).hex()))
    except Exception as e:
        return f"exception {type(e).__name__}: {e}", want, None
    if len(res) != 1:
        return f"{len(res)} paths: {res}", want, res
    got = ERRMAP.get(res[0][0], res[0][0])
    if got != want:
        return f"got {got} expected {want}", want, res
    return None, want, res


# ---------------------------------------------------------------------------
# sharding
# ---------------------------------------------------------------------------


# ---------------------------------------------------------------------------
# code read through the instructions: CODECOPY / EXTCODECOPY of itself / CODESIZE on the real SEVM
# ---------------------------------------------------------------------------

FF = bytes([0xFF]) * 32
COPY_SIZES = (0, 1, 31, 32, 33, 64)


def copy_program(tail, op, off_kind, size, dst, dirty):
    """[dirty 96 bytes of memory;] (EXT)CODECOPY(dst, off, size); word 96 := MSIZE, word 128 := CODESIZE; return mem[0:160]; <tail as data>.
    off is given relative to the end of the code: "end-2" | "end-1" | "end" | "end+1" | "zero" | "huge" """
    def body(off):
        b = bytearray()
        if dirty:
            for a in (0, 32, 64):
                b += bytes([PUSH32]) + FF + bytes([PUSH1, a, 0x52])
        b += bytes([PUSH1, size, PUSH32]) + off.to_bytes(32, "big") + bytes([PUSH1, dst])
        b += bytes([0x30, 0x3C]) if op == "EXTCODECOPY" else bytes([0x39])  # ADDRESS EXTCODECOPY | CODECOPY
        b += bytes([0x59, PUSH1, 96, 0x52, 0x38, PUSH1, 128, 0x52, PUSH1, 160, PUSH0, 0xF3, STOP])  # MSIZE->96, CODESIZE->128, RETURN(0,160)
        return bytes(b)
    n = len(body(0)) + len(tail)
    off = {"zero": 0, "end-2": n - 2, "end-1": n - 1, "end": n, "end+1": n + 1, "huge": 2**200 + 5}[off_kind]
    return body(off) + bytes(tail)


def check_copy(tail, op, off_kind, size, dst, dirty):
    from halmos.contract import Contract
    from mc import refevm

    code = copy_program(tail, op, off_kind, size, dst, dirty)
    res = run_code(Contract(code))
    w = refevm.World()
    w.code[0xAAAA] = code
    w.storage[0xAAAA] = {}
    w.transient[0xAAAA] = {}
    ok, ret, err = refevm.transact(w, 0xAAAA, 0xBBBB, 0xBBBB, 0, b"")
    want = (None if ok else err, ret.hex())
    if len(res) != 1:
        return f"{len(res)} paths: {res}", want
    if res[0] != want:
        got = res[0]
        k = next((i for i in range(0, 320, 2) if (got[1] or "")[i:i + 2] != want[1][i:i + 2]), None)
        return f"halmos {got[0]} {str(got[1])[:64]}..., EVM {want[0]} {want[1][:64]}...; first differing byte {k // 2 if k is not None else None} (code length {len(code)})", want
    return None, want


def loop0_programs():
    """code whose first byte is a JUMPDEST that is the head of a loop: the back edge is a taken jump to pc 0 (JUMP and JUMPI, concrete
    and symbolic condition); control: the same loop with the head at pc 1.  The loop runs until MSIZE is non-zero (one iteration)."""
    out = []
    for pad in (0, 1):  # pad = 1: a leading JUMPDEST so that the head is at pc 1
        for back in ("JUMP", "JUMPI", "JUMPI-sym"):
            head = pad
            # head: JUMPDEST ; MSIZE PUSH1 64 EQ ; PUSH1 exit ; JUMPI ; PUSH0 MSIZE MSTORE (memory grows by a word) ; <back edge to head> ;
            # exit: JUMPDEST ; MSIZE PUSH0 MSTORE ; RETURN(0,32)      -- two iterations: returns 64
            if back == "JUMP":
                edge = [PUSH1, head, 0x56]
            elif back == "JUMPI":
                edge = [PUSH1, 1, PUSH1, head, 0x57]
            else:
                edge = [0x36, 0x15, PUSH1, head, 0x57]  # CALLDATASIZE ISZERO (true: empty calldata) ...
            body = [JUMPDEST, 0x59, PUSH1, 64, 0x14, PUSH1, 0, 0x57, PUSH0, 0x59, 0x52] + edge
            exit_pc = pad + len(body)
            body[6] = exit_pc
            tail = [JUMPDEST, 0x59, PUSH0, 0x52, PUSH1, 32, PUSH0, 0xF3]
            out.append((f"loop0:pad={pad}:{back}", bytes([JUMPDEST] * pad + body + tail)))
    return out


def check_loop0(name, code):
    from halmos.contract import Contract
    from mc import refevm

    res = run_code(Contract(code))
    w = refevm.World()
    w.code[0xAAAA] = code
    w.storage[0xAAAA] = {}
    w.transient[0xAAAA] = {}
    ok, ret, err = refevm.transact(w, 0xAAAA, 0xBBBB, 0xBBBB, 0, b"")
    want = (None if ok else err, ret.hex())
    if len(res) != 1 or res[0] != want:
        return f"halmos {res}, EVM {want}", want
    return None, want


def copy_cases(tier):
    tails = [[], [STOP], [PUSH1], [JUMPDEST, PUSH2, 0xA1], [PUSH32] + [0xA2] * 7]
    for tail in tails:
        for op in ("CODECOPY", "EXTCODECOPY"):
            for off_kind in ("zero", "end-2", "end-1", "end", "end+1", "huge"):
                for size in COPY_SIZES:
                    for dst in ((0, 1, 70) if tier == "thorough" else (0, 70)):
                        for dirty in (True, False):
                            yield tail, op, off_kind, size, dst, dirty


def bounds(tier):
    # (max length with every region [i,j), max length with prefix/suffix splits only, jump body max length)
    return (4, 4, 3) if tier == "quick" else (5, 6, 4)


def shards(tier, seed):
    full, split_only, jl = bounds(tier)
    out = []
    # shard by first two letters
    for a in ALPHABET:
        for b in ALPHABET:
            out.append({"kind": "decode", "first": [a, b], "full": full, "split_only": split_only})
    out.append({"kind": "decode_short", "full": full})
    for a in ALPHABET:
        out.append({"kind": "jump", "first": a, "maxlen": jl})
    for i in range(4):
        out.append({"kind": "copy", "tier": tier, "i": i, "n": 4})
    return rotate(out, seed)


def regions(n, all_regions):
    if all_regions:
        return [(i, j) for i in range(n + 1) for j in range(i, n + 1) if j - i <= len(SYMBYTE)]
    # concrete prefix / symbolic suffix at every offset
    return [(i, n) for i in range(n + 1)]


def strings_for(shard):
    if shard["kind"] == "decode_short":
        yield []
        for a in ALPHABET:
            yield [a]
        return
    first = shard["first"]
    for ln in range(2, shard["split_only"] + 1):
        for rest in itertools.product(ALPHABET, repeat=ln - 2):
            yield first + list(rest)


def run_shard(shard):
    acc = Acc()
    if shard["kind"] in ("decode", "decode_short"):
        full = shard["full"]
        for bs in strings_for(shard):
            n = len(bs)
            for (i, j) in regions(n, n <= full):
                reps = ["chunks", "term", "view"] if j > i else ["chunks", "hex", "view"]
                for rep in reps:
                    acc.count("contracts")
                    bad = check_contract(bs, i, j, rep)
                    code = mk_code(bs, i, j)
                    acc.outcome((tuple(sorted(ref_jumpdests(code))), tuple(b is None for b in code)))
                    if j > i or rep == "chunks":
                        acc.count("distinct_codes")
                    for aspect, detail in bad:
                        key = f"{aspect}:{bytes(bs).hex()}:{i}-{j}:{rep}"
                        acc.violation(key, f"{aspect} of code {bytes(bs).hex()} symbolic[{i}:{j}] rep={rep}: {detail}",
                                      {"kind": "decode", "bs": bs, "i": i, "j": j, "rep": rep})
                        break
            if n == 3:
                acc.sample({"code": bytes(bs).hex(), "regions": regions(n, True)[:4], "jumpdests_concrete": sorted(ref_jumpdests(bs))})
    elif shard["kind"] == "copy":
        for k, (tail, op, off_kind, size, dst, dirty) in enumerate(copy_cases(shard["tier"])):
            if k % shard["n"] != shard["i"]:
                continue
            acc.count("copy_programs")
            bad, want = check_copy(tail, op, off_kind, size, dst, dirty)
            acc.outcome(("copy", want[1][:8], want[1][-70:-60]))
            if bad:
                acc.violation(f"copy:{bytes(tail).hex()}:{op}:{off_kind}:{size}:{dst}:{int(dirty)}", f"{op}(dst={dst}, off={off_kind}, size={size}) with data tail {bytes(tail).hex()}, memory {'dirty' if dirty else 'fresh'}: {bad}",
                              {"kind": "copy", "tail": tail, "op": op, "off": off_kind, "size": size, "dst": dst, "dirty": dirty})
        if shard["i"] == 0:
            for name, code in loop0_programs():
                acc.count("copy_programs")
                bad, want = check_loop0(name, code)
                acc.outcome(("loop0", want[1][-4:]))
                if bad:
                    acc.violation(name, f"{name} code={code.hex()}: {bad}", {"kind": "loop0", "name": name})
        acc.sample({"copy_program": "dirty memory; CODECOPY(dst, codesize-1, 33); MSIZE; CODESIZE; RETURN(0,160)", "offsets": ["0", "end-2", "end-1", "end", "end+1", "2^200+5"], "sizes": list(COPY_SIZES)})
    else:
        a = shard["first"]
        for ln in range(1, shard["maxlen"] + 1):
            for rest in itertools.product(ALPHABET, repeat=ln - 1):
                bs = [a] + list(rest)
                for cond in (None, 0, 1, "sym"):
                    base = 3 if cond is None else (6 if cond == "sym" else 5)
                    for target in range(0, base + ln + 1):
                        acc.count("jump_programs")
                        bad, want, res = check_jump(bs, target, cond)
                        acc.outcome(("jump", want))
                        if bad:
                            key = f"jump:{bytes(bs).hex()}:{target}:{cond}"
                            acc.violation(key, f"jump program body={bytes(bs).hex()} target={target} cond={cond}: {bad}",
                                          {"kind": "jump", "bs": bs, "target": target, "cond": cond})
        acc.sample({"jump_body": bytes([a, JUMPDEST]).hex(), "targets": "0..len", "cond": [None, 0, 1, "symbolic (callvalue)"]})
    return acc.result()


def coverage(tier, merged):
    c = merged["counts"]
    full, split_only, jl = bounds(tier)
    ev = c.get("contracts", 0) + c.get("jump_programs", 0) + c.get("copy_programs", 0)
    return {
        "evaluations": ev,
        "distinct_nontrivial": c.get("distinct_codes", 0) + c.get("jump_programs", 0),
        "rule": (
            f"every byte string of length <= {full} over the 8-letter alphabet x every symbolic region [i,j) x 3 code representations (chunk list, one term / hex string, window of a bigger patched buffer), "
            f"plus length <= {split_only} with every concrete-prefix/symbolic-suffix split; per contract: len, valid_jumpdests, [k] for all k, "
            f"decode_instruction(pc) for all pc (twice), slice(start,size) on the full grid; plus every jump program JUMP/JUMPI(cond 0/1) "
            f"to every target over bodies of length <= {jl}, run by SEVM.run against a reference interpreter. "
            "distinct = (code, region) pairs / jump programs; all are non-trivial (each is decoded at every pc)"
        ),
        "exhaustive": not merged["capped"],
        "contracts": c.get("contracts", 0),
        "jump_programs": c.get("jump_programs", 0),
        "code_copy_programs": c.get("copy_programs", 0),
    }


def replay(case):
    if case["kind"] == "decode":
        bad = check_contract(case["bs"], case["i"], case["j"], case["rep"])
        return {"violated": bool(bad), "obs": bad[:10],
                "key": f"{bad[0][0]}:{bytes(case['bs']).hex()}:{case['i']}-{case['j']}:{case['rep']}" if bad else ""}
    if case["kind"] == "loop0":
        code = dict(loop0_programs())[case["name"]]
        bad, want = check_loop0(case["name"], code)
        return {"violated": bool(bad), "obs": [bad], "key": case["name"] if bad else ""}
    if case["kind"] == "copy":
        bad, want = check_copy(case["tail"], case["op"], case["off"], case["size"], case["dst"], case["dirty"])
        return {"violated": bool(bad), "obs": [bad], "key": f"copy:{bytes(case['tail']).hex()}:{case['op']}:{case['off']}:{case['size']}:{case['dst']}:{int(case['dirty'])}" if bad else ""}
    bad, want, res = check_jump(case["bs"], case["target"], case["cond"])
    return {"violated": bool(bad), "obs": [bad, want, str(res)],
            "key": f"jump:{bytes(case['bs']).hex()}:{case['target']}:{case['cond']}"}
