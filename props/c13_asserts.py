"""C13 - assume and assert cheatcodes have exactly their stated meaning.

 table      complete sweep: the selector table of halmos.assertions is exactly the forge-std grammar
            assert{True,False,Eq,NotEq,Lt,Gt,Le,Ge} x types x optional message, each selector = keccak of its signature.
 handlers   for every selector, every operand tuple of a grid (boundary words with both signs, arrays of length 0..2
            incl. different lengths, bytes/strings of length 0,1,32,33 incl. equal prefixes), with concrete and with
            symbolic operands: the condition the handler builds is true exactly when the stated relation holds.
 behaviour  programs calling vm.assert*/vm.assume with symbolic operands at call depth 0..3 (callers ignore the success
            flag), run by the real SEVM.run: for every input of the grid the paths that admit it end in FailCheatcode
            iff the relation is false; after vm.assume(c) no path admits an input violating c.
"""

from __future__ import annotations

import itertools

import z3

from mc import asm, e2e, hdriver, progcheck, refcheats
from mc.core import Acc, rotate

ID = "C13"
LEVEL = "model_checking"
ASSUMPTIONS = [
    "reference semantics of vm.assert*/vm.assume: mc/refcheats.py (relation false => the test fails wherever the call happens; assume(false) => input rejected), written from the forge-std signatures",
    "operand grids: words in {0,1,2,2^255-1,2^255,2^255+1,2^256-2,2^256-1, 5, 7}; arrays of length 0..2 over {0,1,2^256-1}; bytes/strings of length {0,1,32,33} over two fill bytes incl. same prefix / different length",
    "assert on bytes[]/string[] is not implemented by halmos (raises, fail-safe): only required not to give a verdict",
    "behavioural programs: generated contracts, failing call at call depth 0..3 behind CALLs whose success flag is ignored; inputs x, y over the word grid",
    "symbolic conditions are grounded with z3.substitute + simplify (evaluation of closed terms, no satisfiability query)",
]

M = 2**256
WGRID = [0, 1, 2, 5, 7, 2**255 - 1, 2**255, 2**255 + 1, M - 2, M - 1]
WORD_TYPES = ["bool", "uint256", "int256", "address", "bytes32"]


def w32(v):
    return (v % M).to_bytes(32, "big")


def enc(types, vals):
    """ABI encoding of the tuple (after the selector)"""
    head, tail = b"", b""
    hs = 32 * len(types)
    for t, v in zip(types, vals):
        if t in ("bytes", "string"):
            head += w32(hs + len(tail))
            tail += w32(len(v)) + v + b"\x00" * ((-len(v)) % 32)
        elif t.endswith("[]"):
            head += w32(hs + len(tail))
            tail += w32(len(v)) + b"".join(w32(e) for e in v)
        else:
            head += w32(v)
    return head + tail


def sig_of(op, ty, arr, msg):
    if op in ("True", "False"):
        return f"assert{op}(bool{',string' if msg else ''})"
    a = ty + ("[]" if arr else "")
    return f"assert{op}({a},{a}{',string' if msg else ''})"


def operand_grid(op, ty, arr):
    if op in ("True", "False"):
        return [(v,) for v in (0, 1, 2, M - 1, 2**255)]
    if arr:
        elems = [0, 1, M - 1]
        arrays = [[]] + [[a] for a in elems] + [[a, b] for a in elems for b in elems]
        return [(a, b) for a in arrays for b in arrays]
    if ty in ("bytes", "string"):
        vals = [b"", b"a", b"b", b"a" * 32, b"a" * 31 + b"b", b"a" * 33, b"a" * 32 + b"b", b"b" * 33]
        return [(a, b) for a in vals for b in vals]
    return [(a, b) for a in WGRID for b in WGRID]


def ground(cond, subst):
    """truth value of a handler condition under a substitution of its symbols"""
    if isinstance(cond, bool):
        return cond
    if hasattr(cond, "as_z3"):
        cond = cond.as_z3()
    if subst:
        cond = z3.substitute(cond, *subst)
    g = z3.simplify(cond)
    if z3.is_true(g):
        return True
    if z3.is_false(g):
        return False
    raise RuntimeError(f"cannot ground {g}")


# ---------------------------------------------------------------------------
# table + handlers
# ---------------------------------------------------------------------------


def check_table(acc):
    from halmos.assertions import assert_cheatcode_handler

    want = refcheats.ASSERTS  # selector -> (op, ty, arr, msg)
    have = set(assert_cheatcode_handler)
    for s in sorted(have - set(want)):
        acc.violation(f"table:extra:{s:#010x}", f"assert_cheatcode_handler has selector {s:#010x} which is not the selector of any forge-std assert signature", {"kind": "table"})
    for s in sorted(set(want) - have):
        acc.violation(f"table:missing:{sig_of(*want[s])}", f"assert_cheatcode_handler has no entry for {sig_of(*want[s])} ({s:#010x})", {"kind": "table"})
    acc.count("table_entries", len(have))
    acc.state("table")


def check_handler(acc, selector, symbolic):
    from halmos.assertions import assert_cheatcode_handler
    from halmos.bytevec import ByteVec

    op, ty, arr, msg = refcheats.ASSERTS[selector]
    sig = sig_of(op, ty, arr, msg)
    handler = assert_cheatcode_handler.get(selector)
    if handler is None:
        return
    types = ["bool"] if op in ("True", "False") else [ty + ("[]" if arr else "")] * 2
    if msg:
        types = types + ["string"]
    for vals in operand_grid(op, ty, arr):
        acc.count("handler_cases")
        args = list(vals) + ([b"msg"] if msg else [])
        data = selector.to_bytes(4, "big") + enc(types, args)
        case = {"kind": "handler", "selector": selector, "vals": [v.hex() if isinstance(v, bytes) else v for v in vals], "symbolic": symbolic}
        try:
            want = refcheats.assert_holds(selector, data)
        except refcheats.Unsupported:
            want = None
        subst = []
        if symbolic and not arr and ty not in ("bytes", "string"):
            # word operands as symbols: the same calldata with the operand words replaced by x, y
            syms = [z3.BitVec(n, 256) for n in ("x", "y")][: len(vals)]
            parts = [selector.to_bytes(4, "big")] + syms + ([enc(types, args)[32 * len(vals):]] if msg else [])
            cd = ByteVec(parts)
            subst = [(s, z3.BitVecVal(v, 256)) for s, v in zip(syms, vals)]
        elif symbolic:
            # dynamic operands: element / content bytes as symbols
            body = enc(types, args)
            cd, subst = symbolize_dynamic(selector, types, args, body)
        else:
            cd = ByteVec(data)
        try:
            va = handler(cd)
            got = ground(va.cond, subst)
        except NotImplementedError:
            if want is None:
                continue
            acc.violation(f"handler-raise:{sig}", f"{sig}: handler raises NotImplementedError for operands {case['vals']}", case)
            return
        except Exception as e:
            acc.violation(f"handler-crash:{sig}:{type(e).__name__}", f"{sig}: handler raised {type(e).__name__}: {e} for operands {case['vals']} ({'symbolic' if symbolic else 'concrete'})", case)
            return
        if want is None:
            acc.violation(f"handler-unsupported:{sig}", f"{sig}: handler gives a verdict for a bytes[]/string[] comparison that the reference does not define", case)
            return
        acc.outcome((sig, want))
        if got != want:
            acc.violation(f"handler:{sig}:{'sym' if symbolic else 'con'}", f"{sig} with operands {case['vals']} ({'symbolic' if symbolic else 'concrete'}): handler condition is {got}, the relation is {want}", case)
            return
    acc.state((sig, symbolic))


def symbolize_dynamic(selector, types, args, body):
    """replace every element word / content byte run of the dynamic operands by fresh symbols; returns (ByteVec, subst)"""
    from halmos.bytevec import ByteVec

    # positions: recompute the layout
    parts, subst = [], []
    pos = 0
    marks = []  # (start, end, value bytes)
    hs = 32 * len(types)
    tail_off = hs
    for i, (t, v) in enumerate(zip(types, args)):
        if i >= 2:
            break
        if t.endswith("[]"):
            start = tail_off + 32
            for j, e in enumerate(v):
                marks.append((start + 32 * j, start + 32 * j + 32, w32(e)))
            tail_off += 32 + 32 * len(v)
        elif t in ("bytes", "string"):
            start = tail_off + 32
            if len(v):
                marks.append((start, start + len(v), v))
            tail_off += 32 + len(v) + ((-len(v)) % 32)
    out = [selector.to_bytes(4, "big")]
    cur = 0
    for k, (a, b, val) in enumerate(sorted(marks)):
        if a > cur:
            out.append(body[cur:a])
        s = z3.BitVec(f"e{k}", 8 * (b - a))
        out.append(s)
        subst.append((s, z3.BitVecVal(int.from_bytes(val, "big"), 8 * (b - a))))
        cur = b
    if cur < len(body):
        out.append(body[cur:])
    return ByteVec([p for p in out if not isinstance(p, bytes) or p]), subst


# ---------------------------------------------------------------------------
# behaviour through SEVM.run
# ---------------------------------------------------------------------------

ROOT = 0xA0
OPERANDS = {"x": ["PUSH0", "CALLDATALOAD"], "y": [("push", 32), "CALLDATALOAD"], "5": [("push", 5)], "m1": [("pushn", 32, M - 1)], "0": ["PUSH0"]}


def leaf_code(kind, selector, ops):
    """the frame that makes the cheatcode call; then returns the word 1"""
    if kind == "assume":
        call = e2e.vm("assume(bool)", ops[0])
    else:
        call = e2e.cheat_call(e2e.HEVM, selector, [OPERANDS[o] for o in ops])
    return call + [("push", 1), "PUSH0", "MSTORE", ("push", 32), "PUSH0", "RETURN"]


def forwarder_code(target):
    """forwards its calldata to `target`, ignores the success flag, returns 2"""
    return ["CALLDATASIZE", "PUSH0", "PUSH0", "CALLDATACOPY", "PUSH0", "PUSH0", "CALLDATASIZE", "PUSH0", "PUSH0", ("push", target), ("push", 0xFFFFFF), "CALL", "POP",
            ("push", 2), "PUSH0", "MSTORE", ("push", 32), "PUSH0", "RETURN"]


def behaviour_spec(kind, selector, ops, depth, after_out=False):
    accounts = {}
    leaf = leaf_code(kind, selector, ops)
    if kind == "assume" and after_out:
        # after the assume, branch on the same condition: the impossible side must not be reported
        leaf = e2e.vm("assume(bool)", ops[0]) + list(ops[0]) + ["PUSH0", "MSTORE", ("push", 32), "PUSH0", "RETURN"]
    for d in range(depth + 1):
        addr = ROOT + d
        code = leaf if d == depth else forwarder_code(addr + 1)
        accounts[hex(addr)] = {"code": asm.assemble(code).hex(), "balance": 0}
    return {
        "accounts": accounts, "target": ROOT, "caller": 0xE0A, "origin": 0xE0A, "value": 0,
        "calldata": [["sym", "x", 32], ["sym", "y", 32]], "options": {}, "cheats": True,
    }


BGRID = [{"x": a, "y": b} for a in WGRID for b in WGRID]

ASSUME_CONDS = {
    "x<3": [("push", 3)] + OPERANDS["x"] + ["LT"],
    "x==y": OPERANDS["y"] + OPERANDS["x"] + ["EQ"],
    "x": OPERANDS["x"],
    "slt(x,0)": ["PUSH0"] + OPERANDS["x"] + ["SLT"],
    "iszero(y)": OPERANDS["y"] + ["ISZERO"],
}


def behaviour_cases(tier):
    out = []
    word_sels = [(s, v) for s, v in refcheats.ASSERTS.items() if not v[2] and v[1] not in ("bytes", "string") and not v[3]]
    for s, (op, ty, arr, msg) in sorted(word_sels):
        depths = (0, 1, 2, 3) if (tier == "thorough" or (op, ty) in (("Eq", "uint256"), ("Lt", "int256"), ("True", "bool"), ("Ge", "int256"), ("NotEq", "bytes32"))) else (0, 2)
        opsets = [("x",)] if op in ("True", "False") else [("x", "y"), ("x", "5"), ("m1", "y"), ("x", "x")]
        for d in depths:
            for ops in opsets:
                out.append({"kind": "assert", "selector": s, "ops": list(ops), "depth": d})
    for name in ASSUME_CONDS:
        for d in ((0, 1, 2, 3) if tier == "thorough" else (0, 1, 3)):
            out.append({"kind": "assume", "cond": name, "depth": d, "after": False})
            out.append({"kind": "assume", "cond": name, "depth": d, "after": True})
    return out


def assert_oracle(acc, spec, results, name):
    """for every input: a FailCheatcode path admits it iff the reference says the assertion fails; if the reference run succeeds,
    every other path admitting the input must claim the reference outcome.  (halmos lets the continuing path also admit the failing
    inputs - the failure is reported by the sibling path - so the continuing path is only compared where the relation holds.)"""
    prs, syms, info = results
    acc.count("paths", len(prs))
    evals = [(pr, hdriver.PathEval(pr, syms)) for pr in prs]
    for pr, _ in evals:
        if pr.kind == "stuck":
            return ("stuck", None, f"stuck path: {pr.stuck_reason}")
    for inputs in BGRID:
        ref, _ = hdriver.run_reference(spec, inputs)
        want_fail = ref[0] == "FailCheatcode"
        got_fail, others = False, []
        for pr, pe in evals:
            sat, ok, outcome = pe.run(hdriver.mk_env(inputs))
            if not (sat and ok):
                continue
            acc.count("pairs")
            if pr.err == "FailCheatcode":
                got_fail = True
            else:
                others.append(outcome)
        acc.outcome((name.split("@")[0], want_fail))
        if got_fail != want_fail:
            return ("fail-set", inputs, f"a FailCheatcode path is {'reported' if got_fail else 'NOT reported'} for this input but the relation is {'false' if want_fail else 'true'}")
        if not want_fail:
            if not others:
                return ("uncovered", inputs, "the relation holds but no continuing path admits this input")
            for o in others:
                if tuple(o[:2]) != tuple(ref[:2]):
                    return ("unsound", inputs, f"continuing path claims {progcheck.fmt_outcome(o)}; reference gives {progcheck.fmt_outcome(ref)}")
    return None


def check_behaviour(acc, case):
    if case["kind"] == "assume":
        spec = behaviour_spec("assume", None, [ASSUME_CONDS[case["cond"]]], case["depth"], case.get("after", False))
        name = f"assume({case['cond']})@depth{case['depth']}{'+use' if case.get('after') else ''}"
    else:
        op, ty, arr, msg = refcheats.ASSERTS[case["selector"]]
        spec = behaviour_spec("assert", case["selector"], case["ops"], case["depth"])
        name = f"{sig_of(op, ty, arr, msg)}({','.join(case['ops'])})@depth{case['depth']}"
    acc.count("programs")
    hdriver.check_seam.start(force_unknown=())
    try:
        results = hdriver.run_halmos(spec)
        ncalls = hdriver.check_seam.calls
    except Exception as e:
        acc.violation(f"crash:{name}", f"{name}: halmos raised {type(e).__name__}: {e}", dict(case, kind2="behaviour"))
        return
    if case["kind"] == "assert":
        bad = assert_oracle(acc, spec, results, name)
        if bad:
            acc.violation(f"{bad[0]}:{name}", f"{name} inputs={bad[1]}: {bad[2]}", dict(case, kind2="behaviour", inputs=bad[1]))
            return
        # every single branching-solver answer replaced by `unknown`: the failing inputs must still be reported
        for i in range(ncalls):
            hdriver.check_seam.start(force_unknown=(i,))
            try:
                res_i = hdriver.run_halmos(spec)
            finally:
                hdriver.check_seam.start(force_unknown=())
            acc.count("deviation_runs")
            bad = assert_oracle(acc, spec, res_i, name)
            if bad:
                acc.violation(f"{bad[0]}:unknown:{name}", f"{name} with branching-solver answer #{i} = unknown, inputs={bad[1]}: {bad[2]}", dict(case, kind2="behaviour", inputs=bad[1], unknown_at=i))
                return
        acc.state(name)
        return
    issues, stats = progcheck.check_program(spec, BGRID, want_coverage=True, results=results)
    acc.count("paths", stats["paths"])
    acc.count("pairs", stats["pairs"])
    for o in stats["outcomes"]:
        acc.outcome((name.split("@")[0], o[0]))
    if stats["stuck"]:
        acc.violation(f"stuck:{name}", f"{name}: {stats['stuck']} stuck path(s): {[p.stuck_reason for p in results[0] if p.kind == 'stuck'][:2]}", dict(case, kind2="behaviour"))
        return
    for i in issues[:1]:
        acc.violation(f"{i.kind}:{name}", f"{name} inputs={i.inputs}: {i.kind}: {i.detail[:300]}", dict(case, kind2="behaviour", inputs=i.inputs))
        return
    # every single branching-solver answer replaced by `unknown`: the inputs satisfying the assumption must still be covered, and no
    # path may claim anything the EVM does not do
    for k in range(ncalls):
        hdriver.check_seam.start(force_unknown=(k,))
        try:
            res_k = hdriver.run_halmos(spec)
        finally:
            hdriver.check_seam.start(force_unknown=())
        acc.count("deviation_runs")
        issues, stats = progcheck.check_program(spec, BGRID, want_coverage=True, results=res_k)
        acc.count("pairs", stats["pairs"])
        for i in issues[:1]:
            acc.violation(f"{i.kind}:unknown:{name}", f"{name} with branching-solver answer #{k} = unknown, inputs={i.inputs}: {i.kind}: {i.detail[:300]}", dict(case, kind2="behaviour", inputs=i.inputs, unknown_at=k))
            return
    acc.state(name)


# ---------------------------------------------------------------------------


def shards(tier, seed):
    out = [{"kind": "table"}]
    sels = sorted(refcheats.ASSERTS)
    for i in range(0, len(sels), 6):
        out.append({"kind": "handlers", "selectors": sels[i : i + 6]})
    cases = behaviour_cases(tier)
    n = 32
    for i in range(n):
        if cases[i::n]:
            out.append({"kind": "behaviour", "cases": cases[i::n]})
    return rotate(out, seed)


def run_shard(shard):
    hdriver.install_logging()
    hdriver.install_uid()
    acc = Acc(max_violations=30)
    if shard["kind"] == "table":
        check_table(acc)
        acc.sample({"table": "every entry of halmos.assertions.assert_cheatcode_handler against keccak of the forge-std signature grammar"})
    elif shard["kind"] == "handlers":
        for s in shard["selectors"]:
            check_handler(acc, s, False)
            check_handler(acc, s, True)
        acc.sample({"handler": sig_of(*refcheats.ASSERTS[shard["selectors"][0]]), "operand_tuples": len(operand_grid(*refcheats.ASSERTS[shard["selectors"][0]][:3])), "representations": ["concrete", "symbolic"]})
    else:
        for c in shard["cases"]:
            check_behaviour(acc, c)
        if shard["cases"]:
            acc.sample({"behaviour_case": {k: (hex(v) if k == "selector" else v) for k, v in shard["cases"][0].items()}, "inputs": len(BGRID)})
    return acc.result()


def coverage(tier, merged):
    c = merged["counts"]
    return {
        "states": len(merged["states"]),
        "transitions": c.get("paths", 0) + c.get("handler_cases", 0),
        "traces_validated_against_impl": c.get("pairs", 0) + c.get("handler_cases", 0),
        "selector_table_entries": c.get("table_entries", 0),
        "handler_operand_cases": c.get("handler_cases", 0),
        "behaviour_programs": c.get("programs", 0),
        "runs_with_one_injected_unknown": c.get("deviation_runs", 0),
        "behaviour_paths": c.get("paths", 0),
        "behaviour_path_input_pairs": c.get("pairs", 0),
        "exhaustive": not merged["capped"],
        "rule": "states = (selector, operand representation) handler sweeps and behavioural programs completed; transitions = handler evaluations + reported paths; traces validated = handler "
                "conditions compared with the reference relation + (path, input) pairs of the behavioural programs compared with the reference EVM with Foundry cheatcode semantics",
    }


def replay(case):
    hdriver.install_logging()
    hdriver.install_uid()
    acc = Acc()
    if case.get("kind2") == "behaviour":
        check_behaviour(acc, case)
    elif case.get("kind") == "handler":
        check_handler(acc, case["selector"], case["symbolic"])
    else:
        check_table(acc)
    v = acc.result()["violations"]
    return {"violated": bool(v), "obs": [x["what"] for x in v][:3], "key": v[0]["key"] if v else ""}
