"""C03 - PASS means no admissible input violates the test (end to end).

Every test contract of the guarded-failure grammar (mc/testgen.py) is run
through the real halmos.__main__.run_contract (real yices / z3 subprocesses).
Ground truth: the same deployed bytecode is executed on the reference EVM
(with Foundry cheatcode semantics) from the reference post-setUp state for
every argument tuple of a finite domain within the bounds halmos prints.
A test reported PASS without any warning while the brute force holds a failing
input is a violation."""

from __future__ import annotations

import itertools
import re

from mc import e2e, hdriver, testgen
from mc.core import Acc, rotate

ID = "C03"
LEVEL = "model_checking"
ASSUMPTIONS = [
    "test contracts: setUp() storing a constant + check functions `if (g1) [if (g2)] fail_k` / `if (g1) fail_a; if (g2) fail_b` over the guard alphabet of mc/testgen.py (16 static relations incl. add/mul/div/mod/sdiv/exp/keccak/storage, bytes and uint256[] length/element guards), fail_k in {Panic(1), Panic(0x11), vm.assertTrue(false), DSTest fail(), revert, INVALID}",
    "configurations: solver in {yices, z3} x storage layout in {solidity, generic} x --panic-error-codes in {default 0x01, 0x11, *}",
    "ground truth: brute force on mc/refevm.py + mc/refcheats.py over 12 boundary/colliding values per static argument and every length halmos prints for dynamic ones (canonical ABI encoding)",
    "only the sound direction is asserted: PASS with no warning although a concrete failing input exists",
    "real solver subprocesses with a 1 s (quick) / 5 s (thorough) assertion timeout; a solver error/unknown/timeout gives a non-PASS verdict, which this property allows (counted in verdicts_by_exitcode)",
]

CONFIGS_FULL = [
    {"solver": s, "storage_layout": l, "panic_error_codes": p}
    for s in ("yices", "z3")
    for l in ("solidity", "generic")
    for p in ("0x01", "0x11", "*")
]
CONFIGS_QUICK = [CONFIGS_FULL[0], CONFIGS_FULL[4], CONFIGS_FULL[6], CONFIGS_FULL[11]]
CONFIG_DEFAULT = {"solver": "yices", "storage_layout": "solidity", "panic_error_codes": "0x01"}
CONFIG_Z3 = {"solver": "z3", "storage_layout": "generic", "panic_error_codes": "*"}
# length candidates given out of order (the printed bounds are the admissible set whatever their order)
CONFIG_LEN = {"solver": "yices", "storage_layout": "solidity", "panic_error_codes": "0x01", "default_array_lengths": "2,0,1", "default_bytes_lengths": "65,3,0"}
CONFIG_LEN2 = {"solver": "yices", "storage_layout": "solidity", "panic_error_codes": "0x01", "default_array_lengths": "3,2", "default_bytes_lengths": "1024,65"}


def parse_codes(p):
    from halmos.config import ParseErrorCodes

    return ParseErrorCodes().parse(p)


def panic_set(p):
    if p == "*":
        return set()
    return {int(x, 0) for x in p.split(",")}


def gen_tests(tier):
    """list of (config, test)"""
    out = []
    SQ = testgen.STATIC_QUICK
    SA = list(testgen.GUARDS_STATIC)
    sig2 = "uint256,uint256"
    # singles: every guard x every fail kind x every configuration
    for g in SA:
        for f in testgen.FAIL_KINDS:
            for cfg in (CONFIGS_FULL if tier != "quick" else CONFIGS_QUICK):
                out.append((cfg, {"sig": sig2, "shape": "single", "guards": [g], "fails": [f]}))
    # a Panic whose code is symbolic: Panic(x) under a guard that admits the configured code
    for g in ("x<3", "x!=y", "y==5"):
        for cfg in (CONFIG_DEFAULT, CONFIG_Z3):
            out.append((cfg, {"sig": sig2, "shape": "single", "guards": [g], "fails": ["panicx"]}))
    # nested pairs
    G2 = SQ if tier == "quick" else SA
    for g1, g2 in itertools.product(G2, repeat=2):
        if g1 == g2:
            continue
        for f, cfg in (("panic1", CONFIG_DEFAULT), ("assert", CONFIG_Z3)):
            out.append((cfg, {"sig": sig2, "shape": "nested", "guards": [g1, g2], "fails": [f]}))
        if tier != "quick":
            for f, cfg in (("dsfail", CONFIGS_FULL[1]), ("panic11", CONFIGS_FULL[10])):
                out.append((cfg, {"sig": sig2, "shape": "nested", "guards": [g1, g2], "fails": [f]}))
    for g1, g2 in testgen.EXP_PAIRS:
        for cfg in (CONFIG_DEFAULT, CONFIG_Z3):
            out.append((cfg, {"sig": sig2, "shape": "nested", "guards": [g1, g2], "fails": ["panic1"]}))
    for g1, g2 in testgen.DIV0_PAIRS:
        for cfg in (CONFIG_DEFAULT, CONFIG_Z3):
            out.append((cfg, {"sig": sig2, "shape": "nested", "guards": [g1, g2], "fails": ["panic1"]}))
            out.append((cfg, {"sig": sig2, "shape": "nested", "guards": [g2, g1], "fails": ["assert"]}))
    # sequences: first guard's failure is not an assertion failure (plain revert / non-configured panic), second is
    for g1, g2 in itertools.product(G2, repeat=2):
        if g1 == g2:
            continue
        for fa, fb, cfg in (("revert", "panic1", CONFIG_DEFAULT), ("panic11", "assert", CONFIG_DEFAULT), ("invalid", "dsfail", CONFIG_Z3)):
            out.append((cfg, {"sig": sig2, "shape": "seq", "guards": [g1, g2], "fails": [fa, fb]}))
    # dynamic parameters
    for sig in ("bytes", "uint256[]", "uint256,bytes", "uint256,uint256[]"):
        G = list(testgen.guards_for(sig))
        dyn = [g for g in G if g.startswith(("len", "b:", "a:"))]
        stat = [g for g in G if g not in dyn][:4]
        for g in dyn:
            for f in ("panic1", "assert", "revert"):
                for cfg in (CONFIG_DEFAULT, CONFIG_Z3):
                    out.append((cfg, {"sig": sig, "shape": "single", "guards": [g], "fails": [f]}))
        for g in dyn:
            for cfg in (CONFIG_LEN, CONFIG_LEN2):
                out.append((cfg, {"sig": sig, "shape": "single", "guards": [g], "fails": ["panic1"]}))
        for g1, g2 in itertools.product(dyn + stat, dyn):
            if g1 != g2:
                out.append((CONFIG_DEFAULT, {"sig": sig, "shape": "nested", "guards": [g1, g2], "fails": ["panic1"]}))
                out.append((CONFIG_Z3, {"sig": sig, "shape": "seq", "guards": [g1, g2], "fails": ["revert", "assert"]}))
    return out


PER_CONTRACT = 6
NSHARDS = 64


def shards(tier, seed):
    tests = gen_tests(tier)
    # group by config, then chunk
    by_cfg = {}
    for cfg, t in tests:
        by_cfg.setdefault(tuple(sorted(cfg.items())), []).append(t)
    groups = []
    for cfgk, ts in by_cfg.items():
        for i in range(0, len(ts), PER_CONTRACT):
            groups.append({"config": dict(cfgk), "tests": ts[i : i + PER_CONTRACT]})
    for g in groups:
        g["config"]["solver_timeout_assertion"] = "1s" if tier == "quick" else "5s"
    groups = rotate(groups, seed)
    out = [{"groups": groups[i::NSHARDS]} for i in range(NSHARDS) if groups[i::NSHARDS]]
    return out


BOUNDS_RE = re.compile(r"bounds: \[(.*)\]\)")


def parse_bounds(stdout, funsig):
    """{param: [lengths]} printed by halmos for this test"""
    for line in stdout.splitlines():
        if funsig in line and "bounds:" in line:
            m = BOUNDS_RE.search(line)
            if not m:
                return {}
            out = {}
            for name, lst in re.findall(r"(\w[\w\.\[\]]*)=\[([0-9, ]*)\]", m.group(1)):
                out[name] = [int(x) for x in lst.split(",") if x.strip()]
            return out
    return None


def brute_force(contract, world0, funsig, sig, bounds, codes, stop_at_first=True):
    """returns (failing inputs (list of arg tuples), n inputs, n outcomes by kind)"""
    fails = []
    kinds = {}
    n = 0
    for vals in testgen.arg_grid(sig, bounds):
        n += 1
        data = e2e.sel(funsig).to_bytes(4, "big") + testgen.enc_args(sig, vals)
        o = e2e.ref_call(e2e.clone_world(world0), data, panic_codes=codes)
        kinds[o.kind] = kinds.get(o.kind, 0) + 1
        if o.kind == "fail":
            fails.append(vals)
            if stop_at_first and len(fails) >= 3:
                break
    return fails, n, kinds


def jsonable_vals(vals):
    return [v.hex() if isinstance(v, bytes) else v for v in vals]


def check_group(acc, config, tests, want_models=False):
    """runs one contract holding `tests` under `config`; returns per-test records"""
    contract = testgen.mk_contract(tests)
    opts = dict(config)
    rr = e2e.run_contract(contract, options=opts)
    acc.count("contracts")
    records = []
    if rr.exception is not None or len(rr.results) != len(tests):
        # halmos did not produce results (setUp failure ...): not a PASS, nothing to check here
        acc.count("contracts_without_results")
        acc.notes.append(f"no results: {rr.exception!r} {rr.stdout[-200:]}")
        return records
    world0 = e2e.ref_deploy(contract)
    o = e2e.ref_call(world0, "setUp()")
    assert o.kind == "success", o
    codes = panic_set(config["panic_error_codes"])
    by = rr.by_name()
    for i, t in enumerate(tests):
        funsig = f"{testgen.test_name(i)}({t['sig']})"
        r = by[funsig]
        acc.count("tests")
        acc.count(f"rc_{r.exitcode}")
        warns = [m for (lvl, m) in rr.logs if lvl in ("WARNING", "ERROR") and (funsig in m or "check_t" not in m)]
        bounds = parse_bounds(rr.stdout, funsig)
        if bounds is None:
            bounds = {}
        fails, n, kinds = brute_force(contract, world0, funsig, t["sig"], bounds, codes)
        acc.count("inputs", n)
        acc.outcome(f"{r.exitcode}:{'F' if fails else '-'}:{t['shape']}")
        acc.state((tuple(sorted(config.items())), testgen.test_str(t)))
        rec = {"funsig": funsig, "test": t, "exitcode": r.exitcode, "fails": fails, "warnings": warns, "result": r, "bounds": bounds, "kinds": kinds}
        records.append(rec)
        if r.exitcode == 0:
            acc.count("pass_verdicts")
            if fails and not warns:
                key = f"pass-but-fails:{testgen.test_str(t)}:{config['solver']}:{config['storage_layout']}:{config['panic_error_codes']}"
                acc.violation(
                    key,
                    f"halmos reports PASS (no warning) for [{testgen.test_str(t)}] config={config} but arguments {jsonable_vals(fails[0])} make the concrete execution fail",
                    {"config": config, "test": t, "args": jsonable_vals(fails[0])},
                )
        elif r.exitcode == 1:
            acc.count("fail_verdicts")
            if not fails:
                acc.count("fail_verdicts_without_witness_in_domain")
        else:
            acc.count("other_verdicts")
    if len(acc.samples) < 2 and records:
        rec = records[0]
        acc.sample({"config": config, "test": testgen.test_str(rec["test"]), "halmos_exitcode": rec["exitcode"],
                    "reference_failing_inputs_found": len(rec["fails"]), "reference_outcomes": rec["kinds"], "bounds": rec["bounds"]})
    return records


def run_shard(shard):
    hdriver.install_logging()
    hdriver.install_uid()
    acc = Acc(max_violations=30)
    for g in shard["groups"]:
        check_group(acc, g["config"], g["tests"])
    return acc.result()


def coverage(tier, merged):
    c = merged["counts"]
    return {
        "states": len(merged["states"]),
        "transitions": c.get("tests", 0),
        "traces_validated_against_impl": c.get("inputs", 0),
        "test_contracts": c.get("contracts", 0),
        "tests_run_end_to_end": c.get("tests", 0),
        "pass_verdicts_checked_against_brute_force": c.get("pass_verdicts", 0),
        "fail_verdicts": c.get("fail_verdicts", 0),
        "other_verdicts": c.get("other_verdicts", 0),
        "verdicts_by_exitcode": {k[3:]: v for k, v in c.items() if k.startswith("rc_")},
        "reference_executions": c.get("inputs", 0),
        "exhaustive": not merged["capped"],
        "rule": "states = distinct (configuration, test) pairs of the grammar; transitions = tests executed by run_contract with a real solver; traces validated = concrete "
                "argument tuples executed on the reference EVM from the reference post-setUp state and compared with the verdict",
    }


def replay(case):
    hdriver.install_logging()
    hdriver.install_uid()
    acc = Acc()
    check_group(acc, case["config"], [case["test"]])
    v = acc.result()["violations"]
    return {"violated": bool(v), "obs": [x["what"] for x in v][:3], "key": v[0]["key"] if v else ""}
