"""C04 - counterexamples marked valid are reproducible.

Failing tests of the guarded-failure grammar (including guards that need
refinement of the mul/div/mod/sdiv/exp abstractions) are run end to end with
real solvers and --dump-smt-directory.  For every reported model:

 * valid  => the model's values, turned into calldata by an independent ABI
   encoder, drive the reference EVM run of the test into the reported failure;
 * the values halmos reports (TestResult.models and the printed
   "Counterexample" lines) equal an independent read of one of the solver's
   output files (#b / #x / (_ bvN W) syntaxes);
 * a model taken from solver output that mentions an f_evm_ abstraction is
   never labelled valid.
"""

from __future__ import annotations

import glob
import json
import itertools
import os
import re
import shutil
import sys
import tempfile

from mc import e2e, hdriver, testgen
from mc.core import Acc, rotate

ID = "C04"
LEVEL = "model_checking"
ASSUMPTIONS = [
    "tests: the guarded-failure grammar of mc/testgen.py restricted to guards without hashing (scope limit of the statement), static and dynamic (bytes, uint256[]) parameters",
    "solver syntaxes: yices with --bvconst-in-decimal ((_ bvN W)), yices default (#b), z3 (#x)",
    "replay: calldata is rebuilt from the model by an encoder written in /verif (canonical ABI encoding) and executed on mc/refevm.py + mc/refcheats.py from the reference post-setUp state",
    "tests whose solver call times out (1 s quick / 5 s thorough) produce no model and make no claim",
]

SOLVERS = {
    "yices-dec": {"solver": "yices"},
    "yices-bin": {"solver_command": os.path.join(os.path.dirname(sys.executable), "yices-smt2") + " --smt2-model-format"},
    "z3": {"solver": "z3"},
}

NO_HASH = [g for g in testgen.GUARDS_STATIC if "keccak" not in g]
LEN_SINGLE = [{"default_array_lengths": "2", "default_bytes_lengths": "65"}, {"default_array_lengths": "3", "default_bytes_lengths": "3"}]


def gen_tests(tier):
    out = []
    sig2 = "uint256,uint256"
    for g in NO_HASH:
        for f in ("panic1", "assert", "dsfail"):
            for sv in SOLVERS:
                out.append((sv, {"sig": sig2, "shape": "single", "guards": [g], "fails": [f]}))
    G2 = NO_HASH if tier != "quick" else [g for g in NO_HASH if g not in ("x**2==9", "x sdiv y==-2")]
    for g1, g2 in itertools.product(G2, repeat=2):
        if g1 == g2:
            continue
        svs = list(SOLVERS) if tier != "quick" else [list(SOLVERS)[(len(out)) % 3]]
        for sv in svs:
            out.append((sv, {"sig": sig2, "shape": "nested", "guards": [g1, g2], "fails": ["panic1"]}))
    for g1, g2 in testgen.EXP_PAIRS:
        for sv in SOLVERS:
            out.append((sv, {"sig": sig2, "shape": "nested", "guards": [g1, g2], "fails": ["panic1"]}))
    for g1, g2 in testgen.DIV0_PAIRS:
        for sv in SOLVERS:
            out.append((sv, {"sig": sig2, "shape": "nested", "guards": [g1, g2], "fails": ["panic1"]}))
            # a division by zero that is NOT zero can never hold: any counterexample is bogus
            out.append((sv, {"sig": sig2, "shape": "nested", "guards": ["y==0", g2.replace("==0", "==s")], "fails": ["panic1"]}))
    for sig in ("bytes", "uint256[]", "uint256,bytes", "uint256,uint256[]"):
        G = [g for g in testgen.guards_for(sig) if "keccak" not in g]
        dyn = [g for g in G if g.startswith(("len", "b:", "a:"))]
        for g in dyn:
            for sv in SOLVERS:
                out.append((sv, {"sig": sig, "shape": "single", "guards": [g], "fails": ["panic1"]}))
            # the same with a single length candidate per dynamic parameter (no branching over lengths)
            for k, extra in enumerate(LEN_SINGLE):
                out.append((list(SOLVERS)[(len(out) + k) % 3], {"sig": sig, "shape": "single", "guards": [g], "fails": ["panic1"], "extra": extra}))
        for g1, g2 in itertools.product(G[:6] + dyn, dyn):
            if g1 != g2:
                out.append((list(SOLVERS)[len(out) % 3], {"sig": sig, "shape": "nested", "guards": [g1, g2], "fails": ["assert"]}))
    return out


PER_CONTRACT = 6
NSHARDS = 64


def shards(tier, seed):
    by = {}
    for sv, t in gen_tests(tier):
        t = dict(t)
        extra = t.pop("extra", None)
        by.setdefault((sv, json.dumps(extra, sort_keys=True)), []).append(t)
    groups = []
    for (sv, extra), ts in by.items():
        for i in range(0, len(ts), PER_CONTRACT):
            groups.append({"solver": sv, "tests": ts[i : i + PER_CONTRACT], "timeout": "1s" if tier == "quick" else "5s", "extra": json.loads(extra)})
    groups = rotate(groups, seed)
    return [{"groups": groups[i::NSHARDS]} for i in range(NSHARDS) if groups[i::NSHARDS]]


# ---------------------------------------------------------------------------
# independent reading of solver output
# ---------------------------------------------------------------------------

TOKEN = re.compile(r"\(|\)|\|[^|]*\||[^\s()]+")


def sexprs(text):
    """minimal s-expression reader -> nested lists of atoms"""
    stack, cur = [], []
    for tok in TOKEN.findall(text):
        if tok == "(":
            stack.append(cur)
            cur = []
        elif tok == ")":
            if not stack:
                continue
            done, cur = cur, stack.pop()
            cur.append(done)
        else:
            cur.append(tok)
    while stack:  # unbalanced: keep what we have
        done, cur = cur, stack.pop()
        cur.append(done)
    return cur


def lit_value(v):
    if isinstance(v, str):
        if v.startswith("#b"):
            return int(v[2:], 2)
        if v.startswith("#x"):
            return int(v[2:], 16)
        return None
    if isinstance(v, list) and len(v) == 3 and v[0] == "_" and v[1].startswith("bv"):
        return int(v[1][2:])
    return None


def read_model(text):
    """{symbol: value} of the 0-ary bit-vector definitions named p_* / halmos_* in a solver reply"""
    out = {}

    def walk(node):
        if isinstance(node, list):
            if len(node) == 5 and node[0] == "define-fun" and node[2] == []:
                name = node[1].strip("|")
                if name.startswith(("p_", "halmos_")):
                    val = lit_value(node[4])
                    if val is not None:
                        out[name] = val
            for c in node:
                walk(c)

    walk(sexprs(text))
    return out


def defines_abstraction(text):
    """does the solver reply give an interpretation to an f_evm_* symbol?"""
    found = []

    def walk(node):
        if isinstance(node, list):
            if len(node) >= 2 and node[0] in ("define-fun", "function") and isinstance(node[1], str) and node[1].strip("|").startswith("f_evm_"):
                found.append(node[1])
            for c in node:
                walk(c)

    walk(sexprs(text))
    return bool(found)


# ---------------------------------------------------------------------------
# model -> calldata
# ---------------------------------------------------------------------------

NAME_RE = re.compile(r"^p_(.+)_(uint256|bytes|length|string|address|bool|int256|bytes32)_[0-9a-f]{7}_(\d\d)?$")


def model_args(sig, model):
    """argument values (int | bytes | list) from {full symbol name: value}; missing symbols are unconstrained: 0"""
    byname = {}
    for full, v in model.items():
        m = NAME_RE.match(full)
        if not m:
            continue
        byname[(m.group(1), m.group(2))] = v
    vals = []
    for i, t in enumerate(sig.split(",")):
        a = f"a{i}"
        if t == "bytes":
            n = byname.get((a, "length"), 0)
            raw = byname.get((a, "bytes"), 0)
            # the symbol is as wide as the largest padded candidate; take its width from the candidates we know
            width = None
            for cand in (1024, 96, 64, 32):
                if raw < (1 << (8 * cand)):
                    width = cand
            width = width or 1024
            vals.append((raw, n))
        elif t == "uint256[]":
            n = byname.get((a, "length"), 0)
            vals.append([byname.get((f"{a}[{j}]", "uint256"), 0) for j in range(min(n, 64))])
        else:
            vals.append(byname.get((a, t), 0))
    return vals


def fix_bytes(vals, sig, bounds):
    """bytes values are (raw symbol value, length); the symbol is max(candidates) rounded up to 32 bytes wide"""
    out = []
    for i, (t, v) in enumerate(zip(sig.split(","), vals)):
        if t == "bytes":
            raw, n = v
            cands = bounds.get(f"a{i}", [0, 65, 1024])
            width = ((max(cands) + 31) // 32) * 32
            data = raw.to_bytes(width, "big") if width else b""
            out.append(data[:n])
        else:
            out.append(v)
    return out


# ---------------------------------------------------------------------------


def check_group(acc, solver, tests, timeout="1s", extra=None, dump=None, reused=False, first=None):
    """extra: further options (length candidates).  dump: a --dump-smt-directory that outlives this call (as a user's would);
    reused: it already holds the files of an earlier contract with the same test names"""
    from props.c03_pass import parse_bounds

    contract = testgen.mk_contract(tests)
    own_dump = dump is None
    if own_dump:
        dump = tempfile.mkdtemp(prefix="dump_", dir=e2e.workdir())
    opts = dict(SOLVERS[solver])
    opts.update(extra or {})
    opts.update({"dump_smt_directory": dump, "solver_timeout_assertion": timeout})
    try:
        rr = e2e.run_contract(contract, options=opts)
        acc.count("contracts")
        if rr.exception is not None or len(rr.results) != len(tests):
            acc.count("contracts_without_results")
            acc.notes.append(f"no results: {rr.exception!r} {rr.stdout[-300:]}")
            return
        world0 = e2e.ref_deploy(contract)
        assert e2e.ref_call(world0, "setUp()").kind == "success"
        by = rr.by_name()
        for i, t in enumerate(tests):
            funsig = f"{testgen.test_name(i)}({t['sig']})"
            r = by[funsig]
            acc.count("tests")
            acc.count(f"rc_{r.exitcode}")
            name = testgen.test_str(t)
            case = {"solver": solver, "test": t, "timeout": timeout, "extra": extra, "group": tests if reused else None, "first": first}
            # solver replies on disk for this test
            replies = {}
            for f in sorted(glob.glob(os.path.join(dump, testgen.test_name(i), "*.smt2.out"))):
                with open(f) as fh:
                    txt = fh.read()
                replies[os.path.basename(f)] = txt
            sat_models = {fn: read_model(txt) for fn, txt in replies.items() if txt.startswith("sat")}
            bounds = parse_bounds(rr.stdout, funsig) or {}
            # every sat reply on disk (also the unrefined ones halmos discards): halmos's reader vs the independent one
            from halmos.solve import is_model_valid, parse_model_str

            for fn, txt in replies.items():
                if not txt.startswith("sat"):
                    continue
                acc.count("sat_replies_reparsed")
                mine = sat_models[fn]
                theirs = {k: v.value for k, v in parse_model_str(txt).items()}
                if mine != theirs:
                    acc.violation(f"parse:{name}:{solver}", f"[{name}] solver={solver}: halmos reads {fmt(theirs)} from {fn}, the reply says {fmt(mine)}", case)
                uses_abstraction = defines_abstraction(txt)
                if uses_abstraction:
                    acc.count("sat_replies_with_abstraction")
                    if is_model_valid(txt):
                        acc.violation(f"valid-abstract:{name}:{solver}", f"[{name}] solver={solver}: reply {fn} interprets an f_evm_ abstraction but is_model_valid() says valid", case)
            for m in r.models or []:
                acc.count("models")
                reported = {k: v.value for k, v in m.model.items()}
                src = [fn for fn, mm in sat_models.items() if mm == reported]
                if not src and reused:
                    src = []  # the directory also holds replies of the earlier contract: the file mapping is not checked in this pass
                elif not src:
                    acc.violation(f"values:{name}:{solver}", f"[{name}] solver={solver}: reported model {fmt(reported)} equals none of the solver replies {[(fn, fmt(mm)) for fn, mm in sat_models.items()]}", case)
                    continue
                acc.count("models_matched_to_solver_output")
                abstract = ["f_evm_" in replies[fn] for fn in src]
                if m.is_valid and src and all(abstract):
                    acc.violation(f"valid-abstract:{name}:{solver}", f"[{name}] solver={solver}: model labelled valid although the solver output ({src}) mentions an f_evm_ abstraction", case)
                # printed values
                for full, v in reported.items():
                    want = f"{full} = 0x{v:02x}" if v.bit_length() <= 8 else f"{full} = 0x{v:x}"
                    if full + " = " not in rr.stdout:
                        if not m.is_valid:
                            continue  # a model labelled invalid is only printed on request
                        acc.violation(f"printed:{name}:{solver}", f"[{name}] solver={solver}: the printed counterexample has no line for {full} (the solver assigned it {hexs(v)}): an input is left unassigned", case)
                    elif want not in rr.stdout and f"{full} = {hexs(v)}" not in rr.stdout:
                        acc.violation(f"printed:{name}:{solver}", f"[{name}] solver={solver}: printed counterexample does not show {want}", case)
                if not m.is_valid:
                    acc.count("models_labelled_invalid")
                    continue
                acc.count("valid_models")
                vals = fix_bytes(model_args(t["sig"], reported), t["sig"], bounds)
                data = e2e.sel(funsig).to_bytes(4, "big") + testgen.enc_args(t["sig"], vals)
                o = e2e.ref_call(e2e.clone_world(world0), data, panic_codes={1})
                acc.count("replays")
                acc.outcome(f"{o.kind}:{t['shape']}:{solver}")
                acc.state((solver, name))
                if o.kind != "fail":
                    acc.violation(
                        f"replay:{name}:{solver}",
                        f"[{name}] solver={solver}: counterexample marked valid {fmt(reported)} does not reproduce: the concrete run ends in {o.kind} (err={o.err}, ret={o.ret.hex()[:80]})",
                        case,
                    )
                if len(acc.samples) < 2:
                    acc.sample({"test": name, "solver": solver, "model": fmt(reported), "source_file": src, "reference_outcome": o.kind})
    finally:
        if own_dump:
            shutil.rmtree(dump, ignore_errors=True)


def hexs(v):
    from halmos.utils import hexify

    return hexify(v)


def fmt(m):
    return {k: hex(v) if v < 2**64 else hex(v)[:12] + ".." for k, v in m.items()}


def run_shard(shard):
    hdriver.install_logging()
    hdriver.install_uid()
    acc = Acc(max_violations=30)
    for g in shard["groups"]:
        check_group(acc, g["solver"], g["tests"], g.get("timeout", "1s"), g.get("extra"))
    # one --dump-smt-directory kept across two different contracts with the same test names (check_0, check_1, ...): every query
    # must be written afresh, and every counterexample must still reproduce
    plain = [g for g in shard["groups"] if not g.get("extra")]
    if len(plain) >= 2:
        a, b = plain[0], plain[1]
        shared = tempfile.mkdtemp(prefix="dumpshared_", dir=e2e.workdir())
        try:
            check_group(acc, a["solver"], a["tests"], a.get("timeout", "1s"), dump=shared)
            check_group(acc, a["solver"], b["tests"], a.get("timeout", "1s"), dump=shared, reused=True, first=a["tests"])
            acc.count("contracts_run_into_a_reused_dump_directory")
        finally:
            shutil.rmtree(shared, ignore_errors=True)
    return acc.result()


def coverage(tier, merged):
    c = merged["counts"]
    return {
        "states": max(1, len(merged["states"])),
        "transitions": c.get("tests", 0),
        "traces_validated_against_impl": c.get("replays", 0),
        "tests_run_end_to_end": c.get("tests", 0),
        "models_reported": c.get("models", 0),
        "models_matched_to_solver_output": c.get("models_matched_to_solver_output", 0),
        "valid_models_replayed_on_reference_evm": c.get("replays", 0),
        "models_labelled_invalid": c.get("models_labelled_invalid", 0),
        "sat_replies_reparsed": c.get("sat_replies_reparsed", 0),
        "sat_replies_with_abstraction": c.get("sat_replies_with_abstraction", 0),
        "contracts_run_into_a_reused_dump_directory": c.get("contracts_run_into_a_reused_dump_directory", 0),
        "verdicts_by_exitcode": {k[3:]: v for k, v in c.items() if k.startswith("rc_")},
        "exhaustive": not merged["capped"],
        "rule": "states = distinct (solver syntax, failing test) pairs with a valid model; transitions = tests run end to end; traces validated = valid counterexamples "
                "re-encoded to calldata and executed on the reference EVM",
    }


def replay(case):
    hdriver.install_logging()
    hdriver.install_uid()
    acc = Acc()
    if case.get("first"):
        shared = tempfile.mkdtemp(prefix="dumpshared_", dir=e2e.workdir())
        try:
            check_group(Acc(), case["solver"], case["first"], case.get("timeout", "5s"), dump=shared)
            check_group(acc, case["solver"], case["group"], case.get("timeout", "5s"), dump=shared, reused=True, first=case["first"])
        finally:
            shutil.rmtree(shared, ignore_errors=True)
    else:
        check_group(acc, case["solver"], [case["test"]], case.get("timeout", "5s"), case.get("extra"))
    v = acc.result()["violations"]
    return {"violated": bool(v), "obs": [x["what"] for x in v][:3], "key": v[0]["key"] if v else ""}
