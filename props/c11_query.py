"""C11 - the solver query equals the path's constraints; refinement is exact.

Every path that the end-to-end engines hand to the solver (regular tests,
tests extending a sliced setUp state, invariant-mode paths extending sliced
frontier states), with and without --cache-solver, is intercepted at two seams
(Path.to_smt2 and solve.dump, module attributes rebound in the harness):

 * the SMT-LIB text is read back with z3's *parser* (no check-sat) and compared, assertion by assertion, with
   Path.conditions: structurally, else after simplification, else by evaluation on a grid - counted separately;
 * the dumped file has the logic header, exactly one (check-sat), (get-model); with --cache-solver one implication
   `(=> |id| c)` and one `(! |id| :named <id>)` per condition and nothing else;
 * refine() changes only `declare-fun f_evm_bv{mul,udiv,urem,sdiv,srem}_N` lines into define-funs, none stays declared,
   and each definition, evaluated on a boundary grid at its width (256, 264, 512), is the exact EVM operation
   (division and remainder by zero give zero).
"""

from __future__ import annotations

import itertools
import os
import re
import sys

import z3

from mc import e2e, hdriver, invgen, testgen
from mc.core import Acc, rotate

ID = "C11"
LEVEL = "model_checking"
ASSUMPTIONS = [
    "paths: every path of the generated regular tests (static and dynamic parameters, guards using add/mul/div/mod/sdiv/smod/exp/addmod/mulmod/keccak/storage) and of generated invariant projects at depth 2, each with and without --cache-solver",
    "histories: every ordered pair (thorough: every permutation) of four tests that constrain a symbol created in setUp(): the set of queries of the joint run must equal the union of the sets of each test run alone from a fresh process state (differential oracle; symbol uids renumbered)",
    "the comparison reads the query back with z3's SMT-LIB parser (parsing only; no satisfiability query is made by the check)",
    "solver replies come from a scripted solver that answers `sat` with a model interpreting an f_evm_ symbol, so that halmos refines every query; a subset is also run with the real z3",
    "refined definitions are evaluated (z3 simplification of ground terms) on {0,1,2,3,7,2^(N-1)-1,2^(N-1),2^(N-1)+1,2^N-2,2^N-1}^2 for N in {256,264,512}",
]

PY = sys.executable
STUB = os.path.join(os.path.dirname(os.path.dirname(os.path.abspath(__file__))), "mc", "solverstub.py")

# extra guards exercising the 264/512-bit abstractions
testgen.GUARDS_STATIC.setdefault("addmod(x,y,7)==3", testgen.eq([("push", 7)] + testgen.Y + testgen.X + ["ADDMOD"], testgen.k(3)))
testgen.GUARDS_STATIC.setdefault("mulmod(x,y,7)==3", testgen.eq([("push", 7)] + testgen.Y + testgen.X + ["MULMOD"], testgen.k(3)))
testgen.GUARDS_STATIC.setdefault("addmod(x,7,y)==3", testgen.eq(testgen.Y + [("push", 7)] + testgen.X + ["ADDMOD"], testgen.k(3)))
testgen.GUARDS_STATIC.setdefault("mulmod(x,7,y)==3", testgen.eq(testgen.Y + [("push", 7)] + testgen.X + ["MULMOD"], testgen.k(3)))


class Seams:
    def __init__(self):
        self.installed = False
        self.smt2 = None
        self.dumps = None

    def install(self):
        if self.installed:
            return
        import halmos.solve as S
        from halmos.sevm import Path

        me = self
        orig_to = Path.to_smt2
        orig_dump = S.dump

        def to_smt2(path_self, args):
            q = orig_to(path_self, args)
            if me.smt2 is not None:
                # conditions inherited from a sliced parent state (setUp / frontier state): Path.extend_path copied them
                me.smt2.append((list(path_self.conditions.keys()), bool(args.cache_solver), q, True))
            return q

        def dump(path_ctx):
            r = orig_dump(path_ctx)
            if me.dumps is not None:
                try:
                    with open(path_ctx.dump_file) as f:
                        txt = f.read()
                except Exception as e:
                    txt = f"<unreadable: {e}>"
                me.dumps.append((txt, path_ctx.query, path_ctx.is_refined, bool(path_ctx.args.cache_solver)))
            return r

        Path.to_smt2 = to_smt2
        S.dump = dump
        self.installed = True

    def start(self):
        self.install()
        self.smt2, self.dumps = [], []

    def stop(self):
        a, b = self.smt2, self.dumps
        self.smt2, self.dumps = None, None
        return a, b


seams = Seams()

CMD = re.compile(r"^\((check-sat|get-model|get-unsat-core|set-option [^)]*|set-logic [^)]*|set-info[^\n]*)\)\s*$", re.M)


def parse_assertions(text):
    body = CMD.sub("", text)
    return list(z3.parse_smt2_string(body))


def same(a, b):
    """'structural' | 'simplified' | None"""
    if z3.eq(a, b):
        return "structural"
    if z3.eq(z3.simplify(a), z3.simplify(b)):
        return "simplified"
    return None


def check_query(acc, conds, cache, q, label, case):
    """the SMTQuery returned by Path.to_smt2 against Path.conditions"""
    acc.count("queries")
    if "(check-sat)" in q.smtlib:
        acc.violation(f"check-sat-in-query:{label}", f"{label}: Path.to_smt2 left a (check-sat) in the query", case)
        return False
    try:
        parsed = parse_assertions(q.smtlib)
    except z3.Z3Exception as e:
        acc.violation(f"unparsable:{label}", f"{label}: the query does not parse: {str(e)[:200]}", case)
        return False
    ids = [str(c.get_id()) for c in conds]
    if list(q.assertions) != ids:
        acc.violation(f"ids:{label}", f"{label}: SMTQuery.assertions {list(q.assertions)[:6]} are not the ids of the path conditions {ids[:6]}", case)
        return False
    if len(parsed) != len(conds):
        acc.violation(f"count:{label}", f"{label}: the query has {len(parsed)} assertions, the path has {len(conds)} conditions (cache={cache})", case)
        return False
    for k, (p, c) in enumerate(zip(parsed, conds)):
        if cache:
            if not (z3.is_implies(p) and z3.is_const(p.arg(0)) and p.arg(0).decl().name() == ids[k]):
                acc.violation(f"cache-shape:{label}", f"{label}: assertion {k} is not `(=> |{ids[k]}| c)`: {str(p)[:160]}", case)
                return False
            p = p.arg(1)
        how = same(p, c)
        if how is None:
            acc.violation(f"mismatch:{label}", f"{label}: assertion {k} of the query differs from path condition {k}: query {str(p)[:200]} vs path {str(c)[:200]}", case)
            return False
        acc.count(f"assertions_{how}")
    return True


def check_dump(acc, txt, q, refined, cache, label, case):
    acc.count("dump_files")
    n_check = len(re.findall(r"\(check-sat\)", txt))
    if n_check != 1 or "(set-logic QF_AUFBV)" not in txt or "(get-model)" not in txt:
        acc.violation(f"dump-commands:{label}", f"{label}: dumped file has {n_check} (check-sat), logic header {'(set-logic QF_AUFBV)' in txt}, get-model {'(get-model)' in txt}", case)
        return
    if q.smtlib not in txt:
        acc.violation(f"dump-body:{label}", f"{label}: the dumped file does not contain the query text handed to dump()", case)
        return
    named = re.findall(r"\(assert \(! \|([^|]+)\| :named <([^>]+)>\)\)", txt)
    if cache:
        if "(set-option :produce-unsat-cores true)" not in txt or "(get-unsat-core)" not in txt:
            acc.violation(f"dump-cache-commands:{label}", f"{label}: cache mode file lacks produce-unsat-cores / get-unsat-core", case)
            return
        if [a for a, b in named] != list(q.assertions) or any(a != b for a, b in named):
            acc.violation(f"dump-named:{label}", f"{label}: named assertions {named[:5]} do not match the condition ids {list(q.assertions)[:5]}", case)
            return
        # forcing every name true must give back exactly the conditions: implications + names and nothing else
        try:
            parsed = parse_assertions(txt)
        except z3.Z3Exception as e:
            acc.violation(f"dump-unparsable:{label}", f"{label}: dumped file does not parse: {str(e)[:200]}", case)
            return
        n = len(q.assertions)
        if len(parsed) != 2 * n:
            acc.violation(f"dump-cache-count:{label}", f"{label}: cache mode file has {len(parsed)} assertions for {n} conditions (expected {2 * n})", case)
            return
    else:
        if named:
            acc.violation(f"dump-named-plain:{label}", f"{label}: plain mode file contains named assertions", case)
            return
        try:
            parsed = parse_assertions(txt)
        except z3.Z3Exception as e:
            acc.violation(f"dump-unparsable:{label}", f"{label}: dumped file does not parse: {str(e)[:200]}", case)
            return
        if len(parsed) != len(q.assertions):
            acc.violation(f"dump-count:{label}", f"{label}: dumped file has {len(parsed)} assertions for {len(q.assertions)} conditions", case)
            return
    if refined and re.search(r"\(declare-fun f_evm_bv(mul|udiv|urem|sdiv|srem)_", txt):
        acc.violation(f"still-declared:{label}", f"{label}: a refined query still declares an f_evm_bv* abstraction", case)


DEF = re.compile(r"\(define-fun (f_evm_(bv\w+)_(\d+)) \(\(x \(_ BitVec \d+\)\) \(y \(_ BitVec \d+\)\)\) \(_ BitVec \d+\) (.*)\)$", re.M)
DECL = re.compile(r"\(declare-fun (f_evm_bv(mul|udiv|urem|sdiv|srem)_(\d+)) [^\n]*\n?")


def sgn(v, n):
    return v - (1 << n) if v >> (n - 1) else v


def evm_op(op, a, b, n):
    M = 1 << n
    if op == "bvmul":
        return (a * b) % M
    if op == "bvudiv":
        return 0 if b == 0 else a // b
    if op == "bvurem":
        return 0 if b == 0 else a % b
    sa, sb = sgn(a, n), sgn(b, n)
    if op == "bvsdiv":
        if b == 0:
            return 0
        q = abs(sa) // abs(sb)
        return (-q if (sa < 0) != (sb < 0) else q) % M
    if op == "bvsrem":
        if b == 0:
            return 0
        r = abs(sa) % abs(sb)
        return (-r if sa < 0 else r) % M
    raise ValueError(op)


_DEFS_CHECKED = set()


def check_refine(acc, q, label, case):
    from halmos.solve import refine

    decls = DECL.findall(q.smtlib)
    r = refine(q)
    acc.count("refinements")
    if list(r.assertions) != list(q.assertions):
        acc.violation(f"refine-ids:{label}", f"{label}: refine() changed the assertion ids", case)
        return
    a_lines, b_lines = q.smtlib.split("\n"), r.smtlib.split("\n")
    if len(a_lines) != len(b_lines):
        acc.violation(f"refine-lines:{label}", f"{label}: refine() changed the number of lines ({len(a_lines)} -> {len(b_lines)})", case)
        return
    for la, lb in zip(a_lines, b_lines):
        if la == lb:
            continue
        if not (la.startswith("(declare-fun f_evm_bv") and lb.startswith("(define-fun f_evm_bv") and la.split()[1] == lb.split()[1]):
            acc.violation(f"refine-diff:{label}", f"{label}: refine() changed something else than an abstraction declaration: {la[:120]} -> {lb[:120]}", case)
            return
    left = DECL.findall(r.smtlib)
    if left:
        acc.violation(f"refine-left:{left[0][0]}", f"{label}: {left[0][0]} is still declared (uninterpreted) after refine()", case)
        return
    for m in DEF.finditer(r.smtlib):
        name, op, n, body = m.group(1), m.group(2), int(m.group(3)), m.group(4)
        line = m.group(0)
        if line in _DEFS_CHECKED:
            continue
        _DEFS_CHECKED.add(line)
        acc.count("definitions_checked")
        W = [0, 1, 2, 3, 7, (1 << (n - 1)) - 1, 1 << (n - 1), (1 << (n - 1)) + 1, (1 << n) - 2, (1 << n) - 1]
        for a, b in itertools.product(W, repeat=2):
            want = evm_op(op, a, b, n)
            txt = f"{line}\n(assert (= ({name} (_ bv{a} {n}) (_ bv{b} {n})) (_ bv{want} {n})))"
            g = z3.simplify(z3.parse_smt2_string(txt)[0])
            acc.count("definition_evaluations")
            if not z3.is_true(g):
                acc.violation(f"refine-def:{name}", f"refined definition `{line[:160]}` gives a wrong value for {name}({a:#x}, {b:#x}); the EVM result is {want:#x}", dict(case, a=a, b=b))
                return
    if decls and not DEF.search(r.smtlib):
        acc.violation(f"refine-nodef:{label}", f"{label}: the query declares {decls[0][0]} but refine() produced no definition", case)


# ---------------------------------------------------------------------------


def regular_groups(tier):
    G = list(testgen.GUARDS_STATIC)
    tests = [{"sig": "uint256,uint256", "shape": "single", "guards": [g], "fails": ["panic1"]} for g in G]
    pairs = [("x*y==6", "x/y==3"), ("x%y==2", "x sdiv y==-2"), ("addmod(x,y,7)==3", "mulmod(x,7,y)==3"), ("x==s", "x*y==s"), ("keccak(x)==keccak(5)", "x+y==1"), ("x smod y==0", "mulmod(x,y,7)==3"), ("x**y==8", "addmod(x,7,y)==3"),
             # two abstractions of one family (different widths / operators) in one query: every one of them must be refined
             ("x*y==6", "mulmod(x,y,7)==3"), ("addmod(x,y,7)==3", "mulmod(x,y,7)==3"), ("x/y==3", "x%y==2"), ("x sdiv y==-2", "x smod y==0")]
    if tier == "thorough":
        pairs = [(a, b) for a in G for b in G if a != b]
    tests += [{"sig": "uint256,uint256", "shape": "nested", "guards": [a, b], "fails": ["assert"]} for a, b in pairs]
    tests += [{"sig": "uint256,uint256", "shape": "seq", "guards": [a, b], "fails": ["revert", "panic1"]} for a, b in pairs[:6]]
    for sig in ("bytes", "uint256[]", "uint256,bytes"):
        Gd = list(testgen.guards_for(sig))
        dyn = [g for g in Gd if g.startswith(("len", "b:", "a:"))]
        tests += [{"sig": sig, "shape": "single", "guards": [g], "fails": ["panic1"]} for g in dyn]
    return [tests[i : i + 4] for i in range(0, len(tests), 4)]


def inv_projects(tier):
    fsets = [["inc", "step"], ["set", "dbl"], ["rng", "inc"], ["pay", "own"], ["tick", "inc"], ["dec", "set"]]
    return [{"targets": [f], "invariants": [[0, "s", "ne", 2], [0, "s", "ne", 5], [0, "s", "le", 1]], "filters": None} for f in fsets]


def run_group(acc, kind, payload, cache, solver):
    opts = {"solver_timeout_assertion": "5s"}
    if solver == "stub":
        opts["solver_command"] = f"{PY} {STUB} sat-abstract:unsat"
    else:
        opts["solver"] = "z3"
    if cache:
        opts["cache_solver"] = True
    seams.start()
    try:
        if kind == "regular":
            c = testgen.mk_contract(payload)
            rr = e2e.run_contract(c, options=opts)
            label0 = "regular:" + "|".join(testgen.test_str(t) for t in payload)[:150]
        else:
            P = invgen.Project(payload)
            opts["invariant_depth"] = 2
            rr = e2e.run_contract(P.test, funsigs=P.invariant_sigs(), options=opts, others=P.targets)
            label0 = f"invariant:{payload['targets']}"
    finally:
        smt2, dumps = seams.stop()
    acc.count("contracts")
    case = {"kind": kind, "payload": payload, "cache": cache, "solver": solver}
    label0 += f":cache={int(cache)}"
    if rr.exception is not None:
        acc.violation(f"crash:{label0}", f"{label0}: run_contract raised {rr.exception!r}", case)
        return
    n_sliced = 0
    for i, (conds, c, q, sliced) in enumerate(smt2):
        ok = check_query(acc, conds, c, q, label0, case)
        n_sliced += int(sliced)
        if not ok:
            return
        if "f_evm_bv" in q.smtlib:
            check_refine(acc, q, label0, case)
    for txt, q, refined, c in dumps:
        check_dump(acc, txt, q, refined, c, label0, case)
    acc.count("paths_extending_sliced_state", n_sliced)
    acc.outcome((kind, cache, len(smt2) > 0, len(dumps) > 0))
    acc.state(label0)
    if len(acc.samples) < 1 and smt2:
        conds, c, q, sliced = smt2[-1]
        acc.sample({"case": label0, "conditions": len(conds), "cache": c, "query_head": q.smtlib[:300]})


# ---------------------------------------------------------------------------
# histories over a shared setUp symbol: the queries of a test do not depend on which tests ran before it
# ---------------------------------------------------------------------------

UID_IN_NAME = re.compile(r"_([0-9a-f]{7})_(\d\d)\b")


def norm_query(q):
    """the set of assertions of a query (read back with z3's parser), with the cache's assertion ids dropped and the uid part of symbol
    names renumbered in order of appearance"""
    seen = {}

    def ren(m):
        return "_u%d_%s" % (seen.setdefault(m.group(1), len(seen)), m.group(2))

    out = []
    for a in parse_assertions(q.smtlib):
        if z3.is_implies(a) and z3.is_const(a.arg(0)) and a.arg(0).decl().name().isdigit():
            a = a.arg(1)
        out.append(UID_IN_NAME.sub(ren, a.sexpr()))
    return frozenset(out)


def shared_contract():
    """setUp() stores a fresh symbol s; every test constrains s on its fall-through path"""
    x = e2e.arg(0)
    s_ = ["PUSH0", "SLOAD"]
    new_s = e2e.svm("createUint256(string)", [("push", 32)], retsize=32, mem=0x80, pop=True) + [("push", 0x80), "MLOAD"]
    funcs = {
        "setUp()": new_s + ["PUSH0", "SSTORE", "STOP"],
        # if (s > 100) revert; if (x == 3) fail
        "check_a(uint256)": e2e.if_then([("push", 100)] + s_ + ["GT"], e2e.revert0(), "r") + e2e.if_then(x + [("push", 3), "EQ"], e2e.panic(1), "f") + ["STOP"],
        # if (s > 1000) { if (x == 1) fail }
        "check_b(uint256)": e2e.if_then([("push", 1000)] + s_ + ["GT", "ISZERO"], ["STOP"], "r") + e2e.if_then(x + [("push", 1), "EQ"], e2e.panic(1), "f") + ["STOP"],
        # vm.assume(s != 50 is not needed): if (s == 50) fail
        "check_c(uint256)": e2e.if_then(s_ + [("push", 50), "EQ"], e2e.panic(1), "f") + ["STOP"],
        # vm.assume(s < 10); if (x == s) fail
        "check_d(uint256)": e2e.vm("assume(bool)", [("push", 10)] + s_ + ["LT"]) + e2e.if_then(x + s_ + ["EQ"], e2e.panic(1), "f") + ["STOP"],
    }
    return e2e.Contract("H", funcs)


SHARED_TESTS = ["check_a(uint256)", "check_b(uint256)", "check_c(uint256)", "check_d(uint256)"]


def run_shared(order, cache):
    opts = {"solver_timeout_assertion": "5s", "solver_command": f"{PY} {STUB} unsat"}
    if cache:
        opts["cache_solver"] = True
    seams.start()
    try:
        rr = e2e.run_contract(shared_contract(), funsigs=list(order), options=opts)
    finally:
        smt2, dumps = seams.stop()
    return rr, {norm_query(q) for (_, _, q, _) in smt2}


def check_shared_history(acc, order, cache):
    """the set of queries produced by running `order` in one contract run equals the union of the sets produced by each test run alone"""
    label = f"shared:{'>'.join(t.split('(')[0] for t in order)}:cache={int(cache)}"
    case = {"kind": "shared", "order": list(order), "cache": cache}
    acc.count("contracts")
    rr, together = run_shared(order, cache)
    if rr.exception is not None or len(rr.results) != len(order):
        acc.violation(f"crash:{label}", f"{label}: run_contract gave {rr.exception!r} / {len(rr.results)} results", case)
        return
    alone = set()
    for t in order:
        rr1, qs = run_shared([t], cache)
        if rr1.exception is not None:
            acc.violation(f"crash:{label}", f"{label}: run_contract([{t}]) raised {rr1.exception!r}", case)
            return
        alone |= qs
    acc.count("queries", len(together))
    acc.count("history_queries_compared", len(together))
    if together != alone:
        extra = [sorted(q) for q in together - alone][:1]
        missing = [sorted(q) for q in alone - together][:1]
        acc.violation(f"history:{label}", f"{label}: the queries of a test depend on the tests run before it from the same setUp state: only in the joint run {str(extra)[:500]}; only when run alone {str(missing)[:500]}", case)
        return
    acc.outcome(("shared", cache, len(together)))
    acc.state(label)


# ---------------------------------------------------------------------------
# a cheatcode that returns several values forks on the literal condition `true`: each reply's path keeps its own constraints
# ---------------------------------------------------------------------------


def check_createcalldata(acc, cache):
    """check_cc(x): d = svm.createCalldata("Tgt"); if d is a call of the i-th function of Tgt and x == 100 + i: fail.
    Ground truth: one counterexample per non-view function of Tgt, with x = 100 + i (every reply's failing path is feasible)."""
    from props.c14_cheats import enc_call

    tgt = invgen.mk_target("Tgt", ["inc", "set", "step"])
    fns = [sg for sg in tgt.funcs if sg not in tgt.views]
    x = e2e.arg(0)
    body = [("sizeof", "cc"), ("offsetof", "cc"), ("push", 0x80), "CODECOPY", "PUSH0", "PUSH0", ("sizeof", "cc"), ("push", 0x80), "PUSH0", ("pushn", 20, e2e.SVM), ("push", 0xFFFFFF), "CALL", "POP",
            "RETURNDATASIZE", "PUSH0", ("push", 0x200), "RETURNDATACOPY"]
    for i, sg in enumerate(fns):
        body += e2e.if_then([("push", 0x240), "MLOAD", ("push", 224), "SHR", ("pushn", 4, e2e.sel(sg)), "EQ"], e2e.if_then(x + [("push", 100 + i), "EQ"], e2e.panic(1), f"p{i}"), f"s{i}")
    body += ["STOP", ("data", "cc", enc_call("createCalldata(string)", ["Tgt"]))]
    c = e2e.Contract("CC", {"setUp()": ["STOP"], "check_cc(uint256)": body})
    opts = {"solver": "z3", "solver_timeout_assertion": "10s"}
    if cache:
        opts["cache_solver"] = True
    label = f"createCalldata:cache={int(cache)}"
    case = {"kind": "cc", "cache": cache}
    seams.start()
    try:
        rr = e2e.run_contract(c, options=opts, others=[tgt])
    finally:
        smt2, dumps = seams.stop()
    acc.count("contracts")
    if rr.exception is not None or len(rr.results) != 1:
        acc.violation(f"crash:{label}", f"{label}: run_contract gave {rr.exception!r}", case)
        return
    for conds, cch, q, sliced in smt2:
        if not check_query(acc, conds, cch, q, label, case):
            return
    got = sorted(v.value for m in rr.results[0].models or [] if m.is_valid for k, v in m.model.items() if k.startswith("p_a0_uint256"))
    want = [100 + i for i in range(len(fns))]
    acc.outcome(("cc", cache, tuple(got)))
    if got != want:
        acc.violation(f"replies:{label}", f"{label}: createCalldata(\"Tgt\") has {len(fns)} replies and each one's failing path (x == 100 + i) is feasible; halmos reports counterexamples for x in {got}, expected {want}: "
                      "the query of a reply's path does not equal that path's own constraints", case)
        return
    acc.state(label)


def shards(tier, seed):
    out = [{"kind": "cc", "payload": None, "cache": False, "solver": "z3"}, {"kind": "cc", "payload": None, "cache": True, "solver": "z3"}]
    orders = list(itertools.permutations(SHARED_TESTS, 2)) + [tuple(SHARED_TESTS), tuple(reversed(SHARED_TESTS))]
    if tier == "thorough":
        orders = list(itertools.permutations(SHARED_TESTS, 2)) + list(itertools.permutations(SHARED_TESTS, 4))
    for k, o in enumerate(orders):
        out.append({"kind": "shared", "payload": list(o), "cache": bool(k % 2) if tier == "quick" else False, "solver": "stub"})
        if tier == "thorough":
            out.append({"kind": "shared", "payload": list(o), "cache": True, "solver": "stub"})
    for g in regular_groups(tier):
        for cache in (False, True):
            out.append({"kind": "regular", "payload": g, "cache": cache, "solver": "stub"})
    for g in regular_groups(tier)[:6]:
        out.append({"kind": "regular", "payload": g, "cache": True, "solver": "z3"})
    for d in inv_projects(tier):
        for cache in (False, True):
            out.append({"kind": "inv", "payload": d, "cache": cache, "solver": "stub"})
    return rotate(out, seed)


def run_shard(shard):
    hdriver.install_logging()
    hdriver.install_uid()
    acc = Acc(max_violations=30)
    if shard["kind"] == "shared":
        check_shared_history(acc, shard["payload"], shard["cache"])
    elif shard["kind"] == "cc":
        check_createcalldata(acc, shard["cache"])
    else:
        run_group(acc, shard["kind"], shard["payload"], shard["cache"], shard["solver"])
    return acc.result()


def coverage(tier, merged):
    c = merged["counts"]
    return {
        "states": max(1, c.get("queries", 0)),
        "transitions": max(1, c.get("assertions_structural", 0) + c.get("assertions_simplified", 0)),
        "traces_validated_against_impl": c.get("queries", 0) + c.get("dump_files", 0),
        "queries_reparsed_and_compared": c.get("queries", 0),
        "assertions_matched_structurally": c.get("assertions_structural", 0),
        "assertions_matched_after_simplification": c.get("assertions_simplified", 0),
        "dump_files_checked": c.get("dump_files", 0),
        "queries_of_paths_extending_a_sliced_setup_or_frontier_state": c.get("paths_extending_sliced_state", 0),
        "history_queries_compared_with_solo_runs": c.get("history_queries_compared", 0),
        "refinements_checked": c.get("refinements", 0),
        "refined_definitions_checked": c.get("definitions_checked", 0),
        "definition_evaluations": c.get("definition_evaluations", 0),
        "exhaustive": not merged["capped"],
        "rule": "states = queries produced by Path.to_smt2 for explored paths; transitions = assertions compared one for one with Path.conditions; traces validated = queries + dumped files checked",
    }


def replay(case):
    hdriver.install_logging()
    hdriver.install_uid()
    _DEFS_CHECKED.clear()
    acc = Acc()
    if case["kind"] == "shared":
        check_shared_history(acc, case["order"], case["cache"])
    elif case["kind"] == "cc":
        check_createcalldata(acc, case["cache"])
    else:
        run_group(acc, case["kind"], case["payload"], case["cache"], case["solver"])
    v = acc.result()["violations"]
    return {"violated": bool(v), "obs": [x["what"] for x in v][:3], "key": v[0]["key"] if v else ""}
