"""C10 - incomplete exploration is always reported.

Generated programs with counted loops (symbolic and concrete trip counts, two
loop shapes, nested), path-count and step limits and an unsupported opcode,
placed in regular tests, in setUp() and in target functions called during
invariant testing, are run end to end by the real run_contract under every
--loop / --width / --depth value of a small set (and with a scripted solver
that cannot decide the stuck-path query).

Oracle: the same bytecode is brute-forced on the reference EVM.  If some
input within the bounds makes the test fail and halmos says PASS, a warning
naming the cut (loop bound / width / depth / internal error) must have been
emitted for that test; tests whose loops all have concrete conditions must be
reported FAIL and never carry a loop-bound warning."""

from __future__ import annotations

import itertools
import os
import sys

from mc import e2e, hdriver, invgen
from mc.core import Acc, rotate

ID = "C10"
LEVEL = "model_checking"
ASSUMPTIONS = [
    "programs: `i = 0; while (i < n) i++` in two shapes (exit on the taken branch as solc emits; back edge on the taken branch as do-while / optimiser output), nested loops, a concrete trip count N in {0..6}, a failure `if (i == K) Panic(1)` after the loop, K in {0..5}; n symbolic (argument or fresh symbol)",
    "limits: --loop in {1,2,3}, --width in {0,1,2,3}, --depth in {0, 40, 100}; unsupported opcode 0x0c on one branch with solver replies {real, unknown}",
    "placements: regular check_* test, setUp(), target function of an invariant test (spin(uint256) / spind(uint256)), two contracts with the same test signature in one process",
    "ground truth: brute force on mc/refevm.py over n in {0..9} (x in a small domain); a warning counts if it is logged for the test's signature (or, for setUp / invariant target calls, during that contract's run) and names the limit",
]

PY = sys.executable
STUB = os.path.join(os.path.dirname(os.path.dirname(os.path.abspath(__file__))), "mc", "solverstub.py")


def loop_code(n_items, style):
    """leaves i on the stack; i counts iterations of `while (i < n)`"""
    if style == "while":
        return ["PUSH0", ("label", "top")] + list(n_items) + ["DUP2", "LT", "ISZERO", ("ref", "exit"), "JUMPI", ("push", 1), "ADD", ("ref", "top"), "JUMP", ("label", "exit")]
    if style == "dowhile":
        # do { i++ } while (i < n)
        return ["PUSH0", ("label", "top"), ("push", 1), "ADD"] + list(n_items) + ["DUP2", "LT", ("ref", "top"), "JUMPI"]
    raise ValueError(style)


def nested_code(n_items):
    """for (i<n) for (j<n) c++ ; leaves c"""
    return (["PUSH0", "PUSH0", ("label", "otop")] + list(n_items) + ["DUP2", "LT", "ISZERO", ("ref", "oexit"), "JUMPI",  # stack: c i
            "PUSH0", ("label", "itop")] + list(n_items) + ["DUP2", "LT", "ISZERO", ("ref", "iexit"), "JUMPI",  # c i j
            "SWAP2", ("push", 1), "ADD", "SWAP2", ("push", 1), "ADD", ("ref", "itop"), "JUMP", ("label", "iexit"), "POP",
            ("push", 1), "ADD", ("ref", "otop"), "JUMP", ("label", "oexit"), "POP"])


def fail_if_eq(k):
    return e2e.if_then(["DUP1", ("push", k), "EQ"], e2e.panic(1), "f") + ["STOP"]


def regular_tests():
    """name -> (sig, body, kind) ; kind 'sym' (symbolic condition) | 'con' (concrete conditions only)"""
    T = {}
    n = e2e.arg(0)
    for style in ("while", "dowhile"):
        for k in (0, 1, 2, 3, 4, 5):
            T[f"{style}_sym_k{k}"] = ("uint256", loop_code(n, style) + fail_if_eq(k), "sym")
    for N in (0, 1, 3, 5, 6):
        for style in ("while", "dowhile"):
            # concrete trip count, the failure additionally needs x == 42 (so that the test has a symbolic input)
            body = loop_code([("push", N)], style) + e2e.if_then(["DUP1", ("push", max(N, 1) if style == "dowhile" else N), "EQ"] + n + [("push", 42), "EQ", "AND"], e2e.panic(1), "f") + ["STOP"]
            T[f"{style}_con_n{N}"] = ("uint256", body, "con")
    for k in (0, 1, 4):
        T[f"nested_sym_k{k}"] = ("uint256", nested_code(n) + fail_if_eq(k), "sym")
    # a loop guarded by a concrete condition inside a symbolic one: while (i < 3) { if (x == i) fail }
    T["con_loop_sym_branch"] = ("uint256", ["PUSH0", ("label", "top"), ("push", 3), "DUP2", "LT", "ISZERO", ("ref", "exit"), "JUMPI"] + e2e.if_then(["DUP1"] + n + ["EQ"], e2e.panic(1), "hit") +
                                [("push", 1), "ADD", ("ref", "top"), "JUMP", ("label", "exit"), "STOP"], "sym")
    # path-count: four paths, the failing one is behind three guards
    T["paths4"] = ("uint256", e2e.if_then(n + [("push", 1), "EQ"], ["STOP"], "a") + e2e.if_then(n + [("push", 2), "EQ"], ["STOP"], "b") + e2e.if_then(n + [("push", 3), "EQ"], e2e.panic(1), "c") + ["STOP"], "paths")
    T["paths4_first"] = ("uint256", e2e.if_then(n + [("push", 1), "EQ"], e2e.panic(1), "a") + e2e.if_then(n + [("push", 2), "EQ"], ["STOP"], "b") + e2e.if_then(n + [("push", 3), "EQ"], ["STOP"], "c") + ["STOP"], "paths")
    # step limit: a long straight-line prefix, then a guarded failure
    # (the short path falls through and is explored first; the step counter of --depth is global to the run)
    T["long"] = ("uint256", n + [("push", 7), "EQ", ("ref", "lng"), "JUMPI", "STOP", ("label", "lng"), "PUSH0"] + [("push", 1), "ADD"] * 30 + ["POP"] + e2e.panic(1), "steps")
    # unsupported opcode on the other branch of a failing test / of a passing test
    T["unsupported"] = ("uint256", e2e.if_then(n + [("push", 7), "EQ"], [0x0C, "STOP"], "a") + ["STOP"], "stuck")
    return T


CONFIGS = [{"loop": l} for l in (1, 2, 3)] + [{"loop": 2, "width": w} for w in (1, 2, 3)] + [{"loop": 2, "depth": d} for d in (40, 100)] + [{"loop": 6}]


def brute(contract, world0, funsig, domain):
    fails = []
    for v in domain:
        o = e2e.ref_call(e2e.clone_world(world0), funsig, [v])
        if o.kind == "fail":
            fails.append(v)
    return fails


def warned(rr, funsig, kinds, strict=False):
    """did halmos log a warning for this test that names one of the limits?  strict: the message must carry the full signature
    (overloads share the name)"""
    msgs = [m for (lvl, m) in rr.logs if lvl in ("WARNING", "ERROR")]
    keys = {"loop": "loop unrolling bound", "width": "--width", "depth": "--depth", "stuck": "Encountered", "internal": "internal-error"}
    for m in msgs:
        if (not strict and funsig.split("(")[0] in m) or funsig in m:
            if any(keys[k] in m for k in kinds):
                return True
    return False


def check_regular(acc, names, config, solver_mode=None):
    T = regular_tests()
    funcs = {"setUp()": ["STOP"]}
    for nme in names:
        sig, body, kind = T[nme]
        funcs[f"check_{nme}({sig})"] = body
    c = e2e.Contract("L", funcs)
    opts = dict(config)
    opts["solver_timeout_assertion"] = "10s"
    if solver_mode:
        opts["solver_command"] = f"{PY} {STUB} {solver_mode}"
    rr = e2e.run_contract(c, options=opts)
    cfgs = ",".join(f"{k}={v}" for k, v in sorted(config.items())) + (f",solver={solver_mode}" if solver_mode else "")
    acc.count("contracts")
    if rr.exception is not None or len(rr.results) != len(names):
        acc.violation(f"no-results:{cfgs}:{names}", f"[{cfgs}] run_contract gave no results: {rr.exception!r} {rr.stdout[-200:]}", {"kind": "regular", "names": names, "config": config, "solver": solver_mode})
        return
    world0 = e2e.ref_deploy(c)
    e2e.ref_call(world0, "setUp()")
    by = rr.by_name()
    for nme in names:
        sig, body, kind = T[nme]
        funsig = f"check_{nme}({sig})"
        r = by[funsig]
        fails = brute(c, world0, funsig, list(range(10)) + [42])
        acc.count("tests")
        acc.count("inputs", 11)
        case = {"kind": "regular", "names": [nme], "config": config, "solver": solver_mode}
        w_any = warned(rr, funsig, ("loop", "width", "depth", "stuck"))
        acc.outcome((kind, r.exitcode, bool(fails), w_any))
        if fails and r.exitcode == 0 and not w_any:
            acc.violation(f"silent-pass:{nme}:{cfgs}", f"[{cfgs}] check_{nme}: PASS without any bound/incompleteness warning although n={fails[0]} makes the test fail (paths {r.num_paths}, bounded loops {r.num_bounded_loops})", case)
            continue
        if kind == "con":
            if warned(rr, funsig, ("loop",)) or (r.num_bounded_loops or 0) > 0:
                acc.violation(f"concrete-loop-cut:{nme}:{cfgs}", f"[{cfgs}] check_{nme}: a loop whose condition is concrete was cut / reported as bounded (bounded loops {r.num_bounded_loops})", case)
                continue
            if fails and r.exitcode != 1 and "width" not in config and "depth" not in config and not solver_mode:
                acc.violation(f"concrete-loop-missed:{nme}:{cfgs}", f"[{cfgs}] check_{nme}: verdict {r.exitcode}, expected FAIL (n={fails[0]}) - concrete loops are never cut", case)
                continue
        if kind == "stuck" and r.exitcode == 0:
            acc.violation(f"stuck-pass:{nme}:{cfgs}", f"[{cfgs}] check_{nme}: a path stops at an unsupported opcode but the test is PASS", case)
            continue
        acc.state((nme, cfgs))


def check_same_signature(acc, config):
    """two contracts with the same test signature in one process: the second one's warning must not be swallowed"""
    T = regular_tests()
    name = "long" if "depth" in config else "while_sym_k4"
    sig, body, kind = T[name]
    cfgs = ",".join(f"{k}={v}" for k, v in sorted(config.items()))
    hdriver.reset_unique_filter()
    # ... and two contracts that even share their name (Foundry allows one per file)
    for idx, (cname, fname) in enumerate((("First", None), ("Second", None), ("Same", "a/Same.t.sol"), ("Same", "b/Same.t.sol"))):
        c = e2e.Contract(cname, {"setUp()": ["STOP"], f"check_{name}({sig})": body}, filename=fname)
        rr = e2e.run_contract(c, options=dict(config, solver_timeout_assertion="10s"), reset_unique=False)
        acc.count("contracts")
        acc.count("tests")
        if rr.exception is not None or len(rr.results) != 1:
            continue
        r = rr.results[0]
        world0 = e2e.ref_deploy(c)
        fails = brute(c, world0, f"check_{name}({sig})", list(range(10)))
        if fails and r.exitcode == 0 and not warned(rr, f"check_{name}({sig})", ("loop", "width", "depth", "stuck")):
            acc.violation(f"silent-pass:second-contract:{name}:{cfgs}", f"[{cfgs}] contract {c.filename}:{cname} (#{idx + 1} with test signature check_{name}({sig}) in this process): PASS without warning although n={fails[0]} fails", {"kind": "same", "config": config})
            return
    acc.state(("same-signature", cfgs))
    # the same with two overloads of one test name in ONE contract
    hdriver.reset_unique_filter()
    body_addr = body  # the address overload runs the same code on its (address-typed) argument word
    c = e2e.Contract("Over", {"setUp()": ["STOP"], f"check_{name}(uint256)": body, f"check_{name}(address)": body_addr})
    rr = e2e.run_contract(c, options=dict(config, solver_timeout_assertion="10s"))
    acc.count("contracts")
    if rr.exception is None and len(rr.results) == 2:
        world0 = e2e.ref_deploy(c)
        for r in rr.results:
            acc.count("tests")
            fails = brute(c, world0, r.name, list(range(10)))
            if fails and r.exitcode == 0 and not warned(rr, r.name, ("loop", "width", "depth", "stuck"), strict=True):
                acc.violation(f"silent-pass:overload:{name}:{cfgs}", f"[{cfgs}] contract Over has check_{name}(uint256) and check_{name}(address): {r.name} is PASS without a warning naming it although n={fails[0]} fails", {"kind": "same", "config": config})
                return
        acc.state(("overloads", cfgs))


# ---------------------------------------------------------------------------
# invariant placement
# ---------------------------------------------------------------------------

invgen.FUNCS["spin"] = ("spin(uint256)", loop_code(e2e.arg(0), "while") + ["PUSH0", "SSTORE", "STOP"], "nonpayable")
invgen.FUNCS["spind"] = ("spind(uint256)", loop_code(e2e.arg(0), "dowhile") + ["PUSH0", "SSTORE", "STOP"], "nonpayable")
invgen.FUNCS["spin3"] = ("spin3()", loop_code([("push", 3)], "while") + ["PUSH0", "SSTORE", "STOP"], "nonpayable")
invgen.FUNCS["unsup"] = ("unsup()", [0x0C, "STOP"], "nonpayable")  # stops at an unsupported opcode in the outermost frame of the target call
invgen.ARG_DOMAIN["spin(uint256)"] = list(range(0, 7))
invgen.ARG_DOMAIN["spind(uint256)"] = list(range(0, 7))


def check_invariant(acc, fns, loop, depth, order=(1, 2, 3, 4, 5), width=0, rel="ne"):
    # `order`: the invariant test that runs first computes the frontier (and is the one whose warning is easiest to lose)
    # rel "loopne": the loop is in the invariant body itself (run once per frontier state: a cut in any of them must be reported)
    desc = {"targets": [fns], "invariants": [[0, "s", rel, k] for k in order], "filters": None}
    P = invgen.Project(desc)
    sigs = P.invariant_sigs()
    name = f"inv:{fns}:loop={loop}:depth={depth}:first={order[0]}" + (f":width={width}" if width else "") + (f":{rel}" if rel != "ne" else "")
    case = {"kind": "inv", "fns": fns, "loop": loop, "depth": depth, "order": list(order), "width": width, "rel": rel}
    opts = {"invariant_depth": depth, "loop": loop, "solver_timeout_assertion": "10s"}
    if width:
        opts["width"] = width  # the path limit of one test must not silently shrink the frontier the next test starts from
    rr = e2e.run_contract(P.test, funsigs=sigs, options=opts, others=P.targets)
    acc.count("contracts")
    if rr.exception is not None or len(rr.results) != len(sigs):
        acc.violation(f"no-results:{name}", f"{name}: no results {rr.exception!r}", case)
        return
    msgs = [m for (lvl, m) in rr.logs if lvl in ("WARNING", "ERROR")]
    if "unsup" in fns:
        # the reference cannot run the unsupported opcode; the oracle here is only: the stopped target call is reported, or no test is a clean PASS
        acc.count("tests", len(sigs))
        reported = any("depth=" in m or "Unsupported" in m or "Encountered" in m for m in msgs)
        acc.outcome(("inv-unsup", tuple(r.exitcode for r in rr.results), reported))
        if depth >= 1 and not reported and all(r.exitcode == 0 for r in rr.results):
            acc.violation(f"stuck-pass:{name}", f"{name}: a target call stops at an unsupported opcode (unsup()), nothing is reported and every invariant test is a clean PASS", case)
            return
        acc.state(name)
        return
    ref = invgen.reference_bfs(P, depth)
    loop_warned = any("loop unrolling bound" in m for m in msgs)
    by = rr.by_name()
    for k, sig in enumerate(sigs):
        r = by[sig]
        acc.count("tests")
        bd = ref["broken"].get(k)
        broken = bd is not None and bd <= depth
        # the warning must be given for *this* test (each invariant test relies on the same cut frontier)
        loop_warned = any(("loop unrolling bound" in m or "--width" in m) and sig.split("(")[0] in m for m in msgs)
        acc.outcome(("inv", r.exitcode, broken, loop_warned))
        if broken and r.exitcode == 0 and not loop_warned and not (r.num_bounded_loops or 0):
            acc.violation(f"silent-pass:{name}", f"{name}: invariant s != {desc['invariants'][k][3]} is broken by {bd} call(s) (reference) but halmos reports a clean PASS: the loop cut inside the target call is not reported (bounded loops {r.num_bounded_loops})", case)
            return
    acc.state(name)


def check_inv_width(acc, width, first):
    """--width cuts one invariant test while the frontier is being computed: the next test must not silently start from the truncated
    frontier.  Targets set(uint8), tick(); invariant A = `s != 200` with two extra branches on s (several paths per symbolic state, hits
    the limit), invariant B = `t <= 0` (broken only by tick(), whose state is computed after set's)."""
    A, B = [0, "s", "nebr", 200], [0, "t", "le", 0]
    desc = {"targets": [["set", "tick"]], "invariants": [A, B] if first == "A" else [B, A], "filters": None}
    P = invgen.Project(desc)
    sigs = P.invariant_sigs()
    name = f"inv-width:{width}:first={first}"
    case = {"kind": "invwidth", "width": width, "first": first}
    rr = e2e.run_contract(P.test, funsigs=sigs, options={"invariant_depth": 1, "width": width, "solver_timeout_assertion": "10s"}, others=P.targets)
    acc.count("contracts")
    if rr.exception is not None or len(rr.results) != len(sigs):
        acc.violation(f"no-results:{name}", f"{name}: no results {rr.exception!r}", case)
        return
    ref = invgen.reference_bfs(P, 1)
    msgs = [m for (lvl, m) in rr.logs if lvl in ("WARNING", "ERROR")]
    by = rr.by_name()
    for k, sig in enumerate(sigs):
        r = by[sig]
        acc.count("tests")
        broken = ref["broken"].get(k) is not None
        warned_here = any("--width" in m and sig.split("(")[0] in m for m in msgs)
        acc.outcome(("inv-width", r.exitcode, broken, warned_here))
        if broken and r.exitcode == 0 and not warned_here:
            acc.violation(f"silent-pass:{name}", f"{name}: {sig} ({desc['invariants'][k]}) is broken by one call (reference) but is a clean PASS: it started from the frontier that "
                          f"the --width {width} cut of the other test left incomplete (frontier sizes { {d: len(v) for d, v in rr.ctx.frontier_states.items()} })", case)
            return
    acc.state(name)


def check_setup(acc, N, loop):
    """a concrete loop in setUp() must never be cut: the test must see s == N"""
    funcs = {"setUp()": loop_code([("push", N)], "while") + ["PUSH0", "SSTORE", "STOP"],
             "check_s(uint256)": e2e.if_then(["PUSH0", "SLOAD", ("push", N), "EQ"] + e2e.arg(0) + [("push", 42), "EQ", "AND"], e2e.panic(1), "f") + ["STOP"]}
    c = e2e.Contract("S", funcs)
    rr = e2e.run_contract(c, options={"loop": loop, "solver_timeout_assertion": "10s"})
    acc.count("contracts")
    acc.count("tests")
    name = f"setup:N={N}:loop={loop}"
    if rr.exception is not None or len(rr.results) != 1:
        acc.violation(f"no-results:{name}", f"{name}: setUp() with a concrete loop of {N} iterations gave no results: {rr.logs[-2:]}", {"kind": "setup", "N": N, "loop": loop})
        return
    r = rr.results[0]
    if r.exitcode != 1 or any("loop unrolling bound" in m for (_, m) in rr.logs):
        acc.violation(f"setup-loop:{name}", f"{name}: expected FAIL (x == 42) without a loop-bound warning, got exit code {r.exitcode}, logs {rr.logs[-2:]}", {"kind": "setup", "N": N, "loop": loop})
        return
    acc.state(name)


def check_setup_symbolic(acc, loop, survivor=False, ctor=False):
    """a symbolic loop in setUp(): whatever halmos does, it must not hand a truncated state to a test that then passes cleanly.
    survivor=True: setUp() additionally reverts unless the trip count is 1 or 3, so that at small --loop exactly one successful setUp path
    survives the cut (no 'Multiple paths' error hides the missing warning)"""
    n = e2e.svm("createUint256(string)", [("push", 32)], retsize=32, mem=0x80, pop=True) + [("push", 0x80), "MLOAD"]
    # createUint256(string) with an (empty) string argument at offset 0x20
    tail = ["PUSH0", "SSTORE", "STOP"]
    if survivor:
        # the loop counter (== n on exit) is on the stack: revert unless it is 1 or 3
        tail = ["DUP1", ("push", 1), "EQ", "DUP2", ("push", 3), "EQ", "OR", ("ref", "okn"), "JUMPI"] + e2e.revert0() + [("label", "okn")] + tail
    K = 3 if survivor else 5
    body = n + ["POP"] + loop_code(n[-2:], "while") + tail
    funcs = {"check_s5()": e2e.if_then(["PUSH0", "SLOAD", ("push", K), "EQ"], e2e.panic(1), "f") + ["STOP"]}
    if ctor:
        # the same loop in the constructor of a test contract that has no setUp() at all (the constructor must have a single path:
        # the other trip counts are discarded with vm.assume instead of reverting)
        keep = e2e.vm("assume(bool)", ["DUP1", ("push", 1), "EQ", "DUP2", ("push", 3), "EQ", "OR"])
        c = e2e.Contract("SS", funcs, ctor=n + ["POP"] + loop_code(n[-2:], "while") + keep + ["PUSH0", "SSTORE"])
    else:
        funcs["setUp()"] = body
        c = e2e.Contract("SS", funcs)
    rr = e2e.run_contract(c, options={"loop": loop, "solver_timeout_assertion": "10s"})
    acc.count("contracts")
    name = f"setup-symbolic{'-survivor' if survivor else ''}{'-constructor' if ctor else ''}:loop={loop}"
    acc.outcome((name, rr.exception is not None, tuple(r.exitcode for r in rr.results)))
    for r in rr.results:
        acc.count("tests")
        if r.exitcode == 0 and not any("loop unrolling bound" in m or "Multiple paths" in m for (_, m) in rr.logs):
            acc.violation(f"silent-pass:{name}", f"{name}: check_s5() is PASS without warning although {'the constructor' if ctor else 'setUp()'} loops on a fresh symbol (s == {K} is reachable)", {"kind": "setupsym", "loop": loop, "survivor": survivor, "ctor": ctor})
            return
    acc.state(name)


def check_nested_stuck(acc, where, depth, kind):
    """a path stops at an unsupported opcode *inside a nested call* (the test contract calling its own helper functions `depth` frames
    deep), either in setUp() or in the test: the affected test must not be a clean PASS.  The control test check_ok() of the
    'test' placement is unaffected and must stay PASS."""
    funcs = {"hop0()": [0x0C, "STOP"]}
    for d in range(1, depth):
        funcs[f"hop{d}()"] = e2e.cheat_call(e2e.TEST, f"hop{d - 1}()", kind=kind) + ["STOP"]
    if kind == "CREATE":
        # the unsupported opcode sits in (depth 1) the init code itself / (deeper) a helper the init code calls; the creator ignores the result
        from mc import asm as _asm

        init = _asm.assemble([0x0C, "STOP"] if depth == 1 else e2e.cheat_call(e2e.TEST, f"hop{depth - 2}()") + ["STOP"])
        enter = [("sizeof", "ini"), ("offsetof", "ini"), ("push", 0x300), "CODECOPY", ("sizeof", "ini"), ("push", 0x300), "PUSH0", "CREATE", "POP"]
        datas = [("data", "ini", init)]
    else:
        enter = e2e.cheat_call(e2e.TEST, f"hop{depth - 1}()", kind=kind)
        datas = []
    if where == "setup":
        funcs["setUp()"] = enter + [("push", 1), "PUSH0", "SSTORE", "STOP"] + datas
        funcs["check_t(uint256)"] = e2e.if_then(["PUSH0", "SLOAD", ("push", 2), "EQ"], e2e.panic(1), "f") + ["STOP"]
    else:
        funcs["setUp()"] = ["STOP"]
        funcs["check_t(uint256)"] = e2e.if_then(e2e.arg(0) + [("push", 7), "EQ"], enter, "a") + ["STOP"] + datas
        funcs["check_ok(uint256)"] = ["STOP"]
    c = e2e.Contract("N", funcs)
    rr = e2e.run_contract(c, funsigs=[f for f in funcs if f.startswith("check_")], options={"loop": 2, "solver_timeout_assertion": "10s"})
    acc.count("contracts")
    name = f"nested-stuck:{where}:depth={depth}:{kind}"
    case = {"kind": "nested", "where": where, "depth": depth, "call": kind}
    msgs = [m for (lvl, m) in rr.logs if lvl in ("WARNING", "ERROR")]
    flagged = rr.exception is not None or any(("Encountered" in m or "internal-error" in m or "Unsupported" in m or "setUp" in m) for m in msgs)
    by = rr.by_name() if rr.exception is None else {}
    acc.count("tests", max(1, len(by)))
    r = by.get("check_t(uint256)")
    acc.outcome((where, depth, kind, r.exitcode if r is not None else None, flagged))
    if r is not None and r.exitcode == 0 and not flagged:
        acc.violation(f"stuck-pass:{name}", f"{name}: a path stops at an unsupported opcode {depth} call frame(s) deep in {'setUp()' if where == 'setup' else 'the test'}, "
                      f"but check_t is a clean PASS (no warning, no error): {msgs[-2:]}", case)
        return
    if where == "test":
        ok = by.get("check_ok(uint256)")
        if ok is None or ok.exitcode != 0:
            acc.violation(f"control:{name}", f"{name}: the unaffected control test check_ok is not PASS: {ok and ok.exitcode}", case)
            return
    acc.state(name)


# ---------------------------------------------------------------------------


def shards(tier, seed):
    T = list(regular_tests())
    out = []
    groups = [T[i : i + 5] for i in range(0, len(T), 5)]
    for cfg in CONFIGS:
        for g in groups:
            out.append({"kind": "regular", "names": g, "config": cfg})
    for cfg in ({"loop": 2}, {"loop": 3}):
        out.append({"kind": "regular", "names": ["unsupported", "paths4"], "config": cfg, "solver": "unknown"})
        out.append({"kind": "regular", "names": ["unsupported", "while_sym_k1"], "config": cfg, "solver": "garbage"})
    for cfg in ({"loop": 2, "depth": 40}, {"loop": 2}, {"loop": 1, "width": 1}):
        out.append({"kind": "same", "config": cfg})
    for fns in (["inc", "set"], ["set", "step"], ["inc"]):
        for width in (1, 2, 3):
            for order in ((1, 2, 3, 4, 5), (5, 4, 3, 2, 1)):
                out.append({"kind": "inv", "fns": fns, "loop": 2, "depth": 2, "width": width, "order": list(order)})
    for width in (2, 3, 4):
        for first in ("A", "B"):
            out.append({"kind": "invwidth", "width": width, "first": first})
    for fns in (["unsup"], ["unsup", "inc"]):
        for depth in (1, 2):
            out.append({"kind": "inv", "fns": fns, "loop": 2, "depth": depth})
    for fns in (["spin"], ["spind"], ["spin", "inc"], ["spin3"], ["spin3", "inc"]):
        for loop in (1, 2, 3, 6):
            for depth in ((1, 2) if tier == "quick" else (1, 2, 3)):
                out.append({"kind": "inv", "fns": fns, "loop": loop, "depth": depth})
                out.append({"kind": "inv", "fns": fns, "loop": loop, "depth": depth, "order": [5, 4, 3, 2, 1]})
    # a loop on the stored value inside the invariant body; the state explored last has a concrete value (no cut there)
    for fns in (["set", "chk"], ["chk", "set"], ["set", "inc"], ["set"], ["setw", "chk"]):
        for loop in (2, 3):
            for depth in (1, 2):
                out.append({"kind": "inv", "fns": fns, "loop": loop, "depth": depth, "rel": "loopne", "order": [5, 4]})
    for N in (0, 3, 5):
        for loop in (1, 2, 3):
            out.append({"kind": "setup", "N": N, "loop": loop})
    for loop in (1, 2, 3):
        out.append({"kind": "setupsym", "loop": loop})
    for loop in (1, 2, 3, 4):
        out.append({"kind": "setupsym", "loop": loop, "survivor": True})
        out.append({"kind": "setupsym", "loop": loop, "survivor": True, "ctor": True})
    for where in ("setup", "test"):
        for depth in (1, 2, 3):
            for kind in ("CALL", "STATICCALL", "CREATE"):
                out.append({"kind": "nested", "where": where, "depth": depth, "call": kind})
    return rotate(out, seed)


def run_case(acc, s):
    k = s["kind"]
    if k == "regular":
        check_regular(acc, s["names"], s["config"], s.get("solver"))
    elif k == "same":
        check_same_signature(acc, s["config"])
    elif k == "inv":
        check_invariant(acc, s["fns"], s["loop"], s["depth"], tuple(s.get("order", (1, 2, 3, 4, 5))), s.get("width", 0), s.get("rel", "ne"))
    elif k == "setup":
        check_setup(acc, s["N"], s["loop"])
    elif k == "invwidth":
        check_inv_width(acc, s["width"], s["first"])
    elif k == "nested":
        check_nested_stuck(acc, s["where"], s["depth"], s["call"])
    else:
        check_setup_symbolic(acc, s["loop"], s.get("survivor", False), s.get("ctor", False))


def run_shard(shard):
    hdriver.install_logging()
    hdriver.install_uid()
    acc = Acc(max_violations=30)
    run_case(acc, shard)
    acc.sample({k: v for k, v in shard.items()})
    return acc.result()


def coverage(tier, merged):
    c = merged["counts"]
    return {
        "states": len(merged["states"]),
        "transitions": c.get("tests", 0),
        "traces_validated_against_impl": c.get("tests", 0),
        "contracts_run_end_to_end": c.get("contracts", 0),
        "tests_compared_with_brute_force": c.get("tests", 0),
        "reference_executions": c.get("inputs", 0),
        "configurations": CONFIGS,
        "exhaustive": not merged["capped"],
        "rule": "states = (program, limit configuration, placement) cases whose verdict/warnings were consistent with the brute force; transitions = tests executed by run_contract",
    }


def replay(case):
    hdriver.install_logging()
    hdriver.install_uid()
    acc = Acc()
    run_case(acc, case)
    v = acc.result()["violations"]
    return {"violated": bool(v), "obs": [x["what"] for x in v][:3], "key": v[0]["key"] if v else ""}
