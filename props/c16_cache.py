"""C16 - the unsat-core cache never changes a verdict.

 histories   every sequence (bounded length) of solve_end_to_end calls on queries over a small set of assertion ids, sharing
             one SolvingContext, against a scripted solver that answers from a ground-truth family of unsatisfiable id sets
             and reports cores of every shape (minimal, the whole query, with an `(error ...)` line, wrapped over several
             lines, empty, garbage).  Invariant: a query is answered without calling the solver only if it really is
             unsatisfiable in the ground truth; every answer equals the ground truth.
 differential generated many-path tests run end to end with real z3 and yices, cache off and on, with and without a
             forced garbage collection before every query is built (assertion ids are z3 ast ids of live terms): verdicts
             and counterexample sets must be identical, every cache hit is re-solved without the cache and must be unsat.
"""

from __future__ import annotations

import gc
import itertools
import os
import re
import shutil
import subprocess
import sys
import tempfile

from mc import e2e, hdriver, testgen
from mc.core import Acc, rotate

ID = "C16"
LEVEL = "model_checking"
ASSUMPTIONS = [
    "histories: queries are non-empty subsets of 4 assertion ids (textually nested: 7, 71, 171, 27) (plus one 30-id scenario for wrapped cores); ground-truth families of unsatisfiable sets {{a,b}}, {{a},{b,c}}, {{a,b,c}}, {{d}}; core shapes minimal / whole query / with (error ...) line / wrapped lines / empty / garbage; sequences of length <= 3 (thorough 4)",
    "the scripted solver replaces halmos.solve.PopenFuture inside the harness process (seam); dump(), SolverOutput.from_result, parse_unsat_core, check_unsat_cores and solve_end_to_end are the real code; cores are appended to the shared context exactly as CounterexampleHandler does",
    "differential runs use the real z3 and yices binaries with a 10 s limit and answer every *branching* query `unknown` (seam on Path.check) so that infeasible paths reach the external solver and produce cores; a test whose solver call times out in either mode is not compared",
    "garbage collection is explored as an on/off deviation at every query construction (gc.collect() before Path.to_smt2)",
]

A_, B_, C_, D_ = "7", "71", "171", "27"  # one id is a substring of another, as with z3's decimal ast ids
IDS = [A_, B_, C_, D_]
FAMILIES = {
    "ab": [{A_, B_}],
    "a|bc": [{A_}, {B_, C_}],
    "abc": [{A_, B_, C_}],
    "d": [{D_}],
}
CORE_STYLES = ["minimal", "full", "error-line", "wrapped", "empty", "garbage"]


def truth_unsat(q, family):
    return any(u <= set(q) for u in family)


class FakeSolver:
    """in-process replacement of the solver subprocess"""

    def __init__(self, family, style):
        self.family, self.style = family, style
        self.calls = []

    def reply(self, path):
        with open(path) as f:
            txt = f.read()
        ids = re.findall(r":named <([^>]+)>", txt)
        self.calls.append(tuple(ids))
        q = set(ids)
        hit = [u for u in self.family if u <= q]
        if not hit:
            return "sat\n(\n)\n", "", 0
        u = sorted(hit[0])
        st = self.style
        if st == "minimal":
            core = u
        elif st == "full":
            core = sorted(q)
        else:
            core = u
        body = " ".join(f"<{i}>" for i in core)
        if st == "error-line":
            return f'unsat\n(error "line 7 column 10: model is not available")\n({body})\n', "", 0
        if st == "wrapped":
            parts = [f"<{i}>" for i in core]
            lines = [" ".join(parts[k : k + 2]) for k in range(0, len(parts), 2)]
            return "unsat\n(" + "\n ".join(lines) + ")\n", "", 0
        if st == "empty":
            return "unsat\n()\n", "", 0
        if st == "garbage":
            return "unsat\n(error \"unsat core is not available\")\n", "", 0
        return f"unsat\n({body})\n", "", 0


def install_fake(solver):
    import halmos.solve as S

    class FakeFuture:
        def __init__(self, cmd, timeout=None):
            self.cmd, self.timeout = cmd, timeout

        def start(self):
            return self

        def result(self, timeout=None):
            return solver.reply(self.cmd[-1])

        def cancel(self):
            pass

        def done(self):
            return True

        def is_running(self):
            return False

    saved = S.PopenFuture
    S.PopenFuture = FakeFuture
    return lambda: setattr(S, "PopenFuture", saved)


def mk_query(ids):
    from halmos.sevm import SMTQuery

    decl = "".join(f"(declare-const |{i}| Bool)\n(declare-const c{i} Bool)\n" for i in ids)
    body = "".join(f"(assert (=> |{i}| c{i}))\n" for i in ids)
    return SMTQuery(decl + body, list(ids))


def real_callback(args, sctx, path_ctx, out):
    """run halmos's own done-callback on a finished solver future (the function context is a bare FunctionContext carrying only the
    fields the callback reads: args, solver_outputs, solving_ctx)"""
    from concurrent.futures import Future

    from halmos.__main__ import CounterexampleHandler
    from halmos.solve import FunctionContext

    fctx = object.__new__(FunctionContext)
    for k, v in (("args", args), ("solver_outputs", []), ("solving_ctx", sctx)):
        object.__setattr__(fctx, k, v)
    h = CounterexampleHandler(ctx=fctx, is_invariant=False, is_probe=False, flamegraph_enabled=False, potential_flamegraphs={}, submitted_futures=[])
    fut = Future()
    fut.set_result(out)
    h._solve_end_to_end_callback(fut, ex=None, path_ctx=path_ctx, description="")


def run_history(acc, fam_name, style, seq, workdir):
    """seq: list of id tuples. returns violation tuple or None"""
    import pathlib

    import halmos.solve as S
    from z3 import sat, unsat

    family = FAMILIES[fam_name]
    solver = FakeSolver(family, style)
    restore = install_fake(solver)
    args = e2e.mk_config({"cache_solver": True, "solver_command": "fake-solver"})
    d = tempfile.mkdtemp(prefix="c16_", dir=workdir)
    try:
        sctx = S.SolvingContext(dump_dir=pathlib.Path(d))
        for k, q in enumerate(seq):
            pc = S.PathContext(args=args, path_id=k, solving_ctx=sctx, query=mk_query(q))
            before = len(solver.calls)
            try:
                out = S.solve_end_to_end(pc)
            except Exception as e:
                return ("crash", f"solve_end_to_end raised {type(e).__name__}: {e} on query {q} (history {seq[:k]})")
            asked = len(solver.calls) > before
            want_unsat = truth_unsat(q, family)
            acc.count("solves")
            if not asked:
                acc.count("cache_hits")
                if not want_unsat:
                    return ("wrong-hit", f"query {sorted(q)} was answered `unsat` from the cache after history {[sorted(x) for x in seq[:k]]}, but it is satisfiable (unsat sets: {[sorted(u) for u in family]}, core style {style}; cached cores {sctx.unsat_cores})")
            got_unsat = out.result == unsat
            if got_unsat != want_unsat and str(out.result) != "err":
                return ("wrong-answer", f"query {sorted(q)} answered {out.result}, ground truth {'unsat' if want_unsat else 'sat'} (history {[sorted(x) for x in seq[:k]]}, style {style})")
            # an unsat result is handed to the real CounterexampleHandler._solve_end_to_end_callback (which decides whether the core is cached)
            if out.result == unsat:
                real_callback(args, sctx, pc, out)
            acc.outcome((asked, want_unsat, style))
    finally:
        restore()
        shutil.rmtree(d, ignore_errors=True)
    return None


def histories(tier):
    subsets = [tuple(c) for n in (1, 2, 3, 4) for c in itertools.combinations(IDS, n)]
    L = 3 if tier == "quick" else 4
    for n in range(1, L + 1):
        if n <= 2:
            pool = subsets
        elif n == 3:
            pool = [s for s in subsets if len(s) in (1, 2, 4) or s == (A_, B_, C_)]
        else:
            pool = [(A_,), (B_, C_), (A_, B_), (A_, B_, C_), (B_, C_, D_), tuple(IDS)]
        for seq in itertools.product(pool, repeat=n):
            yield list(seq)


def long_core_history(acc, workdir):
    """a 30-id core printed over several lines (as yices does), then a satisfiable query made of its first 20 ids"""
    ids = [str(100 + i) for i in range(30)]
    FAMILIES["long"] = [set(ids)]
    for style in ("wrapped", "minimal", "error-line"):
        for second in (ids[:20], ids[:2], ids[10:], ids):
            bad = run_history(acc, "long", style, [tuple(ids), tuple(second)], workdir)
            acc.count("histories")
            if bad:
                acc.violation(f"history:{bad[0]}:long:{style}", f"30-id core, style {style}: {bad[1][:600]}", {"kind": "long", "style": style})
                return
    acc.state("long-core")


# ---------------------------------------------------------------------------
# differential on real runs
# ---------------------------------------------------------------------------


def many_path_contract(nk, variant):
    """check_m(uint256 x, uint256 y): switch on y in 0..nk-1; even k: an infeasible guarded failure, odd k: a feasible one"""
    X, Y = e2e.arg(0), e2e.arg(1)
    items = []
    if variant == "assume":
        # switch with non-fall-through branches; constraints added with vm.assume: k even infeasible, k odd feasible
        for k in range(nk):
            items += Y + [("push", k), "EQ", ("ref", f"L{k}"), "JUMPI"]
        items += ["STOP"]
        for k in range(nk):
            a = 100 + 10 * k
            b = a + 3 if k % 2 == 0 else a - 5
            items += [("label", f"L{k}")] + e2e.vm("assume(bool)", [("push", a)] + X + ["LT"]) + e2e.vm("assume(bool)", [("push", b)] + X + ["GT"]) + e2e.panic(1)
        return e2e.Contract("M", {"setUp()": ["STOP"], "check_m(uint256,uint256)": items})
    for k in range(nk):
        a = 100 + 10 * k
        if variant == "ranges":
            if k % 2 == 0:
                inner = e2e.if_then([("push", a)] + X + ["LT"], e2e.if_then(X + [("push", a + 5), "LT"] if False else [("push", a + 5)] + X + ["GT"], e2e.panic(1), f"i{k}"), f"o{k}")  # x < a and x > a+5
            else:
                inner = e2e.if_then([("push", a)] + X + ["LT"], e2e.if_then([("push", a - 5)] + X + ["GT"], e2e.panic(1), f"i{k}"), f"o{k}")  # a-5 < x < a
        else:  # "shared": every branch shares the condition x & 1 == 1; even branches contradict it
            odd = X + [("push", 1), "AND"]
            if k % 2 == 0:
                # (x & 3) == 2 contradicts x & 1 != 0, but not syntactically: the external solver has to find it (core shared by all even k)
                inner = e2e.if_then(odd, e2e.if_then([("push", 2)] + X + [("push", 3), "AND", "EQ"], e2e.panic(1), f"i{k}"), f"o{k}")
            else:
                inner = e2e.if_then(odd, e2e.if_then([("push", a)] + X + ["EQ"] if a % 2 else [("push", a + 1)] + X + ["EQ"], e2e.panic(1), f"i{k}"), f"o{k}")
        items += e2e.if_then(Y + [("push", k), "EQ"], inner + ["STOP"], f"k{k}")
    return e2e.Contract("M", {"setUp()": ["STOP"], "check_m(uint256,uint256)": items + ["STOP"]})


class HitLog:
    def __init__(self):
        self.installed = False
        self.hits = None
        self.force_gc = False
        self.light = False  # no per-condition bookkeeping and no collections inside a test; reclaim only between tests
        self.solver_results = []
        self.core_sexpr, self.last_sexpr, self.sexpr_at_solve, self.reused = {}, {}, {}, []

    def install(self):
        if self.installed:
            return
        import halmos.solve as S
        from halmos.sevm import Path

        me = self
        orig = S.check_unsat_cores
        orig_to = Path.to_smt2
        import halmos.__main__ as M

        orig_solve = M.solve_end_to_end

        def solve_end_to_end(path_ctx):
            # record what every solver call of the run came back with: runs with a solver error / timeout are not compared
            out = orig_solve(path_ctx)
            me.solver_results.append((str(out.result), str(out.error)[:120] if out.error else None, out.returncode))
            return out

        M.solve_end_to_end = solve_end_to_end
        orig_run_test = M.run_test

        def run_test(ctx):
            # the objects of the finished test are reclaimed before the next one starts (z3 hands out the ids of freed terms again)
            if me.light:
                gc.collect()
            return orig_run_test(ctx)

        M.run_test = run_test

        def check_unsat_cores(query, cores):
            # state invariant: the ids named by the cached cores must still denote the conditions they denoted when the core was
            # produced (they are z3 ast ids; if the ast was reclaimed the id may now belong to a different condition)
            if me.light:
                r = orig(query, cores)
                if r and me.hits is not None:
                    me.hits.append(query)
                return r
            if me.hits is not None and not cores:
                # a fresh solving context (its core list is still empty): forget what an earlier list at the same address held
                for k in [k for k in me.core_sexpr if k[0] == id(cores)]:
                    del me.core_sexpr[k]
            if me.hits is not None:
                core_ids = {i for core in cores for i in core}
                for i in query.assertions:
                    if i in core_ids:
                        then, now = me.core_sexpr.get((id(cores), i)), me.last_sexpr.get(i)
                        if then is None:
                            me.core_sexpr[(id(cores), i)] = now
                        elif now is not None and then != now:
                            me.reused.append((i, then, now))
                for core in cores:
                    for i in core:
                        if (id(cores), i) not in me.core_sexpr and i in me.sexpr_at_solve:
                            me.core_sexpr[(id(cores), i)] = me.sexpr_at_solve[i]
            r = orig(query, cores)
            if r and me.hits is not None:
                me.hits.append(query)
            return r

        def to_smt2(path_self, args):
            if me.force_gc and not me.light:
                gc.collect()
            if me.hits is not None and not me.light:
                for cond in path_self.conditions:
                    i = str(cond.get_id())
                    sx = cond.sexpr()
                    me.last_sexpr[i] = sx
                    me.sexpr_at_solve.setdefault(i, sx)
            return orig_to(path_self, args)

        orig_append = Path.append

        def append(path_self, cond, branching=False):
            # reclaim finished paths before every new condition is created/recorded: a freed z3 ast id may be handed out again
            if me.force_gc and not me.light:
                gc.collect()
            return orig_append(path_self, cond, branching)

        S.check_unsat_cores = check_unsat_cores
        Path.to_smt2 = to_smt2
        Path.append = append
        self.installed = True


hitlog = HitLog()


def cex_set(r):
    out = set()
    for m in r.models or []:
        vals = tuple(sorted((re.sub(r"_[0-9a-f]{7}_\d\d$", "", k), v.value) for k, v in m.model.items()))
        out.add((m.is_valid, vals))
    return out


def plain_resolve(query, solver_bin):
    """the cached answer is re-checked by the real solver on the plain form of the same query"""
    d = tempfile.mkdtemp(prefix="c16r_", dir=e2e.workdir())
    try:
        body = re.sub(r"\(assert \(=> \|[^|]+\| ", "(assert (or false ", query.smtlib)  # drop the guard: (=> |id| c) -> (or false c)
        decls = body
        f = os.path.join(d, "q.smt2")
        names = "".join(f"(assert |{i}|)\n" for i in query.assertions)
        with open(f, "w") as fh:
            fh.write("(set-logic QF_AUFBV)\n" + query.smtlib + "\n" + names + "(check-sat)\n")
        out = subprocess.run([solver_bin, f], capture_output=True, text=True, timeout=60).stdout
        return out.split("\n")[0]
    finally:
        shutil.rmtree(d, ignore_errors=True)


MAXBAL = 0xFFFFFFFFFFFFFFFFFFFFFFFF  # balance of the test contract


def custom_contract(which):
    """tests whose verdict rests on (refine) the second, refined query of a path, or (implicit) a constraint halmos adds on its own"""
    X, Y = e2e.arg(0), e2e.arg(1)
    m = lambda v: v + [("push", 0xF), "AND"]
    prod = m(Y) + m(X) + ["MUL"]
    if which == "pairs":
        # many tests in one contract; the a-tests yield cores over test-local conditions (refined queries), the b-tests are satisfiable:
        # nothing cached by one test may answer a query of a later one (cores are per test; ids of reclaimed conditions are recycled)
        def body(ks, shift):
            items = []
            for j, k2 in enumerate(ks):
                items += e2e.if_then(Y + X + [("push", k2), "ADD", ("push", 1), shift] + ["MUL", ("push", 1), "AND"], e2e.panic(1), f"p{j}")
            return items + ["STOP"]

        funcs = {"setUp()": ["STOP"]}
        for i in range(8):
            funcs[f"check_a{i}(uint256,uint256)"] = body([3 * i + 1, 3 * i + 2, 3 * i + 3], "SHL")
            funcs[f"check_b{i}(uint256,uint256)"] = body([i + 1], "SHR")
        return e2e.Contract("K", funcs)
    if which == "refine":
        funcs = {
            "setUp()": ["STOP"],
            # (x & 15) * (y & 15) > 255 never holds: the abstract query is sat, the refined one unsat
            "check_r1(uint256,uint256)": e2e.if_then([("push", 255)] + prod + ["GT"], e2e.panic(1), "f") + ["STOP"],
            # ... == 6 has solutions: the refined query is sat
            "check_r2(uint256,uint256)": e2e.if_then(prod + [("push", 6), "EQ"], e2e.panic(1), "f") + ["STOP"],
            # two refined queries in one test, the first unsat, the second sat
            "check_r3(uint256,uint256)": e2e.if_then([("push", 225)] + prod + ["GT"], e2e.panic(1), "f") + e2e.if_then(prod + [("push", 225), "EQ"], e2e.panic(1), "g") + ["STOP"],
            # division: x / y == 3 with x == 2 is impossible
            "check_r4(uint256,uint256)": e2e.if_then(X + [("push", 2), "EQ"], e2e.if_then(Y + X + ["DIV", ("push", 3), "EQ"], e2e.panic(1), "g"), "f") + ["STOP"],
        }
    else:
        call = ["PUSH0", "PUSH0", "PUSH0", "PUSH0"] + X + [("push", 0x1234), ("push", 0xFFFFFF), "CALL"]
        # if (x > MAXBAL) { if (y == 1) { ok = call{value: x}(0x1234); if (!ok) return; } assert(false); }
        # the continuation "the call went through" is infeasible only because of the implicit constraint balance >= x
        inner = e2e.if_then(Y + [("push", 1), "EQ"], call + ["ISZERO", ("ref", "out"), "JUMPI"], "c") + e2e.panic(1)
        funcs = {
            "setUp()": ["STOP"],
            "check_pay(uint256,uint256)": e2e.if_then([("pushn", 12, MAXBAL)] + X + ["GT"], inner, "f") + [("label", "out"), "STOP"],
            # the same with the roles swapped: the paying side is explored second
            "check_pay2(uint256,uint256)": e2e.if_then([("pushn", 12, MAXBAL)] + X + ["GT"],
                                                       e2e.if_then(Y + [("push", 1), "EQ", "ISZERO"], e2e.panic(1), "d") + call + ["ISZERO", ("ref", "out2"), "JUMPI"] + e2e.panic(1), "f") + [("label", "out2"), "STOP"],
        }
    return e2e.Contract("K", funcs)


CUSTOM_EXPECT = {**{f"check_a{i}(uint256,uint256)": 0 for i in range(8)}, **{f"check_b{i}(uint256,uint256)": 1 for i in range(8)},
                 "check_r1(uint256,uint256)": 0, "check_r2(uint256,uint256)": 1, "check_r3(uint256,uint256)": 1, "check_r4(uint256,uint256)": 0,
                 "check_pay(uint256,uint256)": 1, "check_pay2(uint256,uint256)": 1}


def check_differential(acc, contract_desc, solver, force_gc):
    kind = contract_desc["kind"]
    if kind == "many":
        c = many_path_contract(contract_desc["nk"], contract_desc["variant"])
        funsigs = None
    elif kind == "custom":
        c = custom_contract(contract_desc["which"])
        funsigs = None
    else:
        c = testgen.mk_contract(contract_desc["tests"])
        funsigs = None
    name = f"{contract_desc}:{solver}:gc={int(force_gc)}"
    case = {"kind": "diff", "desc": contract_desc, "solver": solver, "gc": force_gc}
    hitlog.install()
    res, trouble = {}, {}
    for cache in (False, True):
        opts = {"solver": solver, "solver_timeout_assertion": "10s"}
        if cache:
            opts["cache_solver"] = True
        hitlog.hits = [] if cache else None
        hitlog.core_sexpr, hitlog.last_sexpr, hitlog.sexpr_at_solve, hitlog.reused = {}, {}, {}, []
        hitlog.force_gc = force_gc
        hitlog.light = bool(contract_desc.get("light"))
        hitlog.solver_results = []
        # every branching query is answered `unknown` (as with a too-short branching timeout), so that infeasible paths reach
        # the external solver and produce unsat cores
        hdriver.check_seam.start()
        hdriver.check_seam.force_all = True
        try:
            rr = e2e.run_contract(c, options=opts)
        finally:
            hitlog.force_gc = False
            hitlog.light = False
            hdriver.check_seam.force_all = False
        hits = hitlog.hits
        hitlog.hits = None
        if rr.exception is not None:
            acc.violation(f"crash:{name}", f"{name}: run_contract raised {rr.exception!r} (cache={cache})", case)
            return
        res[cache] = rr
        trouble[cache] = [r for r in hitlog.solver_results if r[0] not in ("sat", "unsat")]
        acc.count("contracts")
        if cache and hitlog.reused:
            i, then, now = hitlog.reused[0]
            acc.violation(f"core-id-reused:{name}", f"{name}: assertion id {i} is named by a cached unsat core, where it denoted `{then[:120]}`, and now denotes `{now[:120]}` in a later query of the same test: the cache key is ambiguous (the z3 ast was reclaimed and its id handed out again)", case)
            return
        if cache:
            import shutil as _sh

            zbin = _sh.which("z3") or "/usr/bin/z3"
            for q in hits:
                acc.count("cache_hits_rechecked")
                ans = plain_resolve(q, zbin)
                if ans != "unsat":
                    acc.violation(f"hit-not-unsat:{name}", f"{name}: a query answered from the unsat-core cache is `{ans}` when solved without the cache (ids {list(q.assertions)[:8]}...)", case)
                    return
    a, b = res[False].by_name(), res[True].by_name()
    for sig in a:
        ra, rb = a[sig], b.get(sig)
        acc.count("tests")
        if rb is None:
            acc.violation(f"missing:{name}", f"{name}: {sig} has no result with the cache on", case)
            return
        if 2 in (ra.exitcode, rb.exitcode):
            acc.count("timeouts_not_compared")
            continue
        acc.outcome((ra.exitcode, rb.exitcode, len(cex_set(ra))))
        want = CUSTOM_EXPECT.get(sig) if kind == "custom" else None
        if want is not None and (ra.exitcode != want or rb.exitcode != want):
            acc.violation(f"expected:{name}", f"{name}: {sig}: the EVM-level verdict is {want}; halmos says {ra.exitcode} without the cache and {rb.exitcode} with it", case)
            return
        if ra.exitcode != rb.exitcode:
            acc.violation(f"verdict:{name}", f"{name}: {sig}: verdict {ra.exitcode} without the cache, {rb.exitcode} with it", case)
            return
        sa, sb = cex_set(ra), cex_set(rb)
        if len(sa) != len(sb) and (trouble[False] or trouble[True]):
            # a solver call failed or timed out in one of the runs (reported by halmos as such): the counterexample sets are not comparable
            acc.count("solver_trouble_not_compared")
            acc.sample({"not_compared": name, "solver_trouble": [trouble[False][:3], trouble[True][:3]]})
            continue
        if len(sa) != len(sb):
            acc.violation(f"cex:{name}", f"{name}: {sig}: {len(sa)} counterexamples without the cache, {len(sb)} with it (all solver calls answered sat/unsat in both runs): {sorted(sa)[:4]} vs {sorted(sb)[:4]}", case)
            return
    acc.state(name)


def diff_cases(tier):
    out = [{"kind": "custom", "which": "refine"}, {"kind": "custom", "which": "implicit"}, {"kind": "custom", "which": "pairs"}, {"kind": "custom", "which": "pairs", "light": True}]
    for variant in ("ranges", "shared", "assume"):
        for nk in ((6, 12) if tier == "quick" else (6, 12, 24, 40)):
            out.append({"kind": "many", "nk": nk, "variant": variant})
    G = ["x==42", "x<3", "x+y==1", "x==s", "y==5", "x!=y", "x>y", "x&0xff==0x2a"]
    pairs = list(itertools.permutations(G, 2))
    tests = [{"sig": "uint256,uint256", "shape": "nested", "guards": [a, b], "fails": ["panic1"]} for a, b in pairs]
    tests += [{"sig": "uint256,uint256", "shape": "seq", "guards": [a, b], "fails": ["assert", "panic1"]} for a, b in pairs[:20]]
    step = 8
    groups = [tests[i : i + step] for i in range(0, len(tests), step)]
    if tier == "quick":
        groups = groups[::2]
    for g in groups:
        out.append({"kind": "tests", "tests": g})
    return out


# ---------------------------------------------------------------------------


def shards(tier, seed):
    out = [{"kind": "long"}]
    for fam in FAMILIES:
        if fam == "long":
            continue
        for style in CORE_STYLES:
            out.append({"kind": "hist", "family": fam, "style": style, "tier": tier})
    for d in diff_cases(tier):
        for solver in ("z3", "yices"):
            for g in (False, True):
                if tier == "quick" and solver == "yices" and g and d["kind"] == "tests":
                    continue
                out.append({"kind": "diff", "desc": d, "solver": solver, "gc": g})
    return rotate(out, seed)


def run_shard(shard):
    hdriver.install_logging()
    hdriver.install_uid()
    acc = Acc(max_violations=30)
    k = shard["kind"]
    wd = e2e.workdir()
    if k == "long":
        long_core_history(acc, wd)
        acc.sample({"history": "30-id unsat core printed over several lines, then a satisfiable query made of a prefix of it"})
    elif k == "hist":
        n = 0
        for seq in histories(shard["tier"]):
            n += 1
            acc.count("histories")
            bad = run_history(acc, shard["family"], shard["style"], seq, wd)
            if bad:
                acc.violation(f"history:{bad[0]}:{shard['family']}:{shard['style']}", f"unsat sets {shard['family']}, core style {shard['style']}: {bad[1][:600]}", {"kind": "hist", "family": shard["family"], "style": shard["style"], "seq": seq})
                break
        else:
            acc.state((shard["family"], shard["style"]))
        acc.sample({"family": shard["family"], "core_style": shard["style"], "histories": n, "example": [[A_, B_], [A_], [A_, B_, C_]]})
    else:
        check_differential(acc, shard["desc"], shard["solver"], shard["gc"])
        acc.sample({"differential": str(shard["desc"])[:200], "solver": shard["solver"], "forced_gc": shard["gc"]})
    return acc.result()


def coverage(tier, merged):
    c = merged["counts"]
    return {
        "states": max(1, c.get("histories", 0)),
        "transitions": max(1, c.get("solves", 0)),
        "traces_validated_against_impl": c.get("histories", 0) + c.get("tests", 0),
        "cache_histories_explored": c.get("histories", 0),
        "solve_end_to_end_calls": c.get("solves", 0),
        "cache_hits_in_histories": c.get("cache_hits", 0),
        "differential_contract_runs": c.get("contracts", 0),
        "differential_tests_compared": c.get("tests", 0),
        "real_cache_hits_rechecked_without_cache": c.get("cache_hits_rechecked", 0),
        "timeouts_not_compared": c.get("timeouts_not_compared", 0),
        "counterexample_sets_not_compared_after_solver_error": c.get("solver_trouble_not_compared", 0),
        "exhaustive": not merged["capped"],
        "rule": "states = histories (sequences of queries on one shared solving context) replayed on the real solve_end_to_end; transitions = individual solve calls; traces validated = histories + end-to-end tests compared cache-off vs cache-on",
    }


def replay(case):
    hdriver.install_logging()
    hdriver.install_uid()
    acc = Acc()
    wd = e2e.workdir()
    if case["kind"] == "hist":
        bad = run_history(acc, case["family"], case["style"], [tuple(x) for x in case["seq"]], wd)
        return {"violated": bool(bad), "obs": [bad[1]] if bad else [], "key": f"history:{bad[0]}:{case['family']}:{case['style']}" if bad else ""}
    if case["kind"] == "long":
        long_core_history(acc, wd)
    else:
        check_differential(acc, case["desc"], case["solver"], case["gc"])
    v = acc.result()["violations"]
    return {"violated": bool(v), "obs": [x["what"] for x in v][:3], "key": v[0]["key"] if v else ""}
