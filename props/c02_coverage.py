"""C02 - no feasible behaviour is dropped.

Same programs and input grid as C01.  For every program: the run with 0
deviations (every branching-solver answer truthful), then every run in which
exactly one `Path.check` answer is replaced by `unknown` (thorough: every pair
for short programs).  Oracles, for every run:

  coverage      every input of the grid is satisfied by the constraints of some
                reported path (a stuck path counts: it is flagged, C10);
  per-decision  for every Exec.check that answered `unsat`, no input of the grid
                satisfies path-conditions AND the rejected condition;
  soundness     under every deviation the C01 oracle must still hold (an `unknown` treated as a proof
                shows up as a wrong end state); disagreements already present with truthful answers
                belong to C01 and are not re-reported.
"""

from __future__ import annotations

import itertools

import z3

from mc import grammar, hdriver, progcheck
from mc.core import Acc, rotate
from props import c01_paths as c01

ID = "C02"
LEVEL = "model_checking"
ASSUMPTIONS = c01.ASSUMPTIONS + [
    "environment nondeterminism = the answers of the branching solver; explored by deviation bounding: 0 deviations, every single `unknown`, (thorough) every pair for programs with <= 8 check calls",
    "an input whose only satisfied paths violate the hash-injectivity bookkeeping (f_inv_sha3) is treated as violating a documented assumption",
]


class DecisionLog:
    """wraps halmos.sevm.Exec.check to record every pruning decision"""

    def __init__(self):
        self.installed = False
        self.records = None

    def install(self):
        if self.installed:
            return
        from halmos.sevm import Exec

        orig = Exec.check
        me = self

        def check(ex_self, cond):
            res = orig(ex_self, cond)
            if me.records is not None and res == z3.unsat:
                me.records.append((list(ex_self.path.conditions.keys()), z3.simplify(cond) if z3.is_expr(cond) else cond))
            return res

        Exec.check = check
        self.installed = True


decisions = DecisionLog()


def check_decisions(records, syms, grid, limit=400):
    """returns (n_checked, witness | None)"""
    n = 0
    for conds, cond in records[:limit]:
        if z3.is_false(cond):
            continue
        pr = hdriver.PathResult()
        pr.kind, pr.err, pr.data, pr.logs, pr.creates = "stuck", None, None, [], []
        pr.conds = conds + [cond]
        try:
            pe = hdriver.PathEval(pr, syms)
        except Exception:
            continue
        n += 1
        for inputs in grid:
            try:
                sat, ok, _ = pe.run(hdriver.mk_env(inputs))
            except Exception:
                break
            if sat and ok:
                return n, (inputs, str(cond)[:200])
    return n, None


def run_with(spec, force_unknown, log=False):
    hdriver.check_seam.start(force_unknown=force_unknown, log=log)
    decisions.install()
    decisions.records = []
    try:
        results = hdriver.run_halmos(spec)
    finally:
        recs = decisions.records
        decisions.records = None
        ncalls = hdriver.check_seam.calls
        hdriver.check_seam.start(force_unknown=())
    return results, ncalls, recs


def check_program(acc, stmts, layout, max_dev, pair_limit=0, extra_options=None):
    spec, labels = c01.mk_spec(stmts, layout, extra_options, with_labels=True)
    grid = c01.mk_grid(spec)
    acc.count("programs")
    base_case = {"stmts": stmts, "layout": layout, "options": extra_options}

    base_unsound = set()

    def one(force, tag):
        try:
            results, ncalls, recs = run_with(spec, force)
        except Exception as e:
            acc.violation(f"crash:{type(e).__name__}:{tag}:{layout}:{grammar.prog_str(stmts)}",
                          f"halmos raised {type(e).__name__}: {e} on [{grammar.prog_str(stmts)}] layout={layout} deviation={tag}",
                          dict(base_case, force=sorted(force)))
            return 0
        acc.count("runs")
        issues, stats = progcheck.check_program(spec, grid, want_coverage=True, results=results)
        acc.count("paths", stats["paths"])
        acc.count("pairs", stats["pairs"])
        acc.count("inputs", stats["inputs"])
        acc.outcome((stats["paths"], stats["stuck"], len(force)))
        for i in issues:
            if i.kind == "unsound":
                # soundness with truthful answers is C01's oracle (and its findings).  Under a deviation a wrong
                # end state means an `unknown` answer was treated as a proof (e.g. a store skipped): report it here,
                # unless the same input already disagrees without any deviation.
                ik = tuple(sorted((i.inputs or {}).items()))
                if not force:
                    base_unsound.add(ik)
                    continue
                if ik in base_unsound or base_unsound:
                    continue
            acc.violation(f"{i.kind}:{tag}:{layout}:{grammar.prog_str(stmts)}",
                          f"program [{grammar.prog_str(stmts)}] layout={layout} deviation={tag} inputs={c01.fmt_inputs(i.inputs)}: {i.kind}: {i.detail}",
                          dict(base_case, force=sorted(force), inputs=i.inputs))
        nd, wit = check_decisions(recs, results[1], grid)
        acc.count("decisions_checked", nd)
        if wit:
            acc.violation(f"pruned:{tag}:{layout}:{grammar.prog_str(stmts)}",
                          f"program [{grammar.prog_str(stmts)}] layout={layout} deviation={tag}: a check answered unsat for condition {wit[1]} "
                          f"although input {c01.fmt_inputs(wit[0])} satisfies the path conditions and the condition",
                          dict(base_case, force=sorted(force), inputs=wit[0]))
        return ncalls

    m = one(set(), "none")
    acc.count("check_calls", m)
    if max_dev >= 1 and m:
        for i in range(m):
            one({i}, f"unknown@{i}")
            acc.count("deviations")
        if max_dev >= 2 and m <= pair_limit:
            for i, j in itertools.combinations(range(m), 2):
                one({i, j}, f"unknown@{i},{j}")
                acc.count("deviations")


def check_symjump(acc):
    """--symbolic-jump: JUMP to a symbolic destination.  Every valid destination the input can denote gets a path, and so does the input
    that denotes none of them (the EVM halts with an invalid jump)."""
    from mc import asm

    ret = lambda v: [("push", v), "PUSH0", "MSTORE", ("push", 32), "PUSH0", "RETURN"]
    # third program: the destination is a truth value (ISZERO(x), 0 or 1): pc 1 is a JUMPDEST, pc 0 is not.  First pass marks memory,
    # then jumps to ISZERO(x); the second pass through pc 1 sees MSIZE != 0 and returns 7
    boolprog = ["PUSH0", ("label", "one"), "MSIZE", ("ref", "r"), "JUMPI", ("push", 1), "PUSH0", "MSTORE", "PUSH0", "CALLDATALOAD", "ISZERO", "JUMP", ("label", "r")] + ret(7)
    for extra in ([], [("label", "c")] + ret(3), "bool"):
        if extra == "bool":
            code = asm.assemble(boolprog)
            assert code[1] == 0x5B
        else:
            code = asm.assemble(["PUSH0", "CALLDATALOAD", "JUMP", ("label", "a")] + ret(1) + [("label", "b")] + ret(2) + extra)
        spec = {"accounts": {"0xaaaa": {"code": code.hex(), "balance": None}}, "target": 0xAAAA, "caller": 0xB1, "origin": 0xB1, "value": 0,
                "calldata": [["sym", "x", 32]], "options": {"symbolic_jump": True}}
        dests = [i for i, b in enumerate(code) if b == 0x5B]
        grid = [{"x": v} for v in dests + [0, 1, dests[0] + 1, dests[-1] + 1, len(code), 2**255, 2**256 - 1]]
        name = f"symbolic-jump:{len(dests)}-destinations" + (":truth-value" if extra == "bool" else "")
        acc.count("programs")
        for force_all in (False, True):
            hdriver.check_seam.start()
            hdriver.check_seam.force_all = force_all
            try:
                results = hdriver.run_halmos(spec)
            except Exception as e:
                acc.violation(f"crash:{name}", f"{name}: halmos raised {type(e).__name__}: {e}", {"symjump": True})
                return
            finally:
                hdriver.check_seam.force_all = False
            acc.count("runs")
            issues, stats = progcheck.check_program(spec, grid, want_coverage=True, results=results)
            acc.count("paths", stats["paths"])
            acc.count("pairs", stats["pairs"])
            acc.count("inputs", stats["inputs"])
            for i in issues[:1]:
                acc.violation(f"{i.kind}:{name}:unknown={int(force_all)}", f"{name} (JUMP(calldataload(0)), valid destinations {dests}, every branching answer {'unknown' if force_all else 'truthful'}) "
                              f"inputs={c01.fmt_inputs(i.inputs)}: {i.kind}: {i.detail[:300]}", {"symjump": True})
                return
    acc.state("symbolic-jump")


def bounds(tier):
    # (alphabet, L, deviation bound, pair_limit)
    if tier == "quick":
        return [("full", 1, 1, 0), ("reduced", 2, 1, 0), ("full", 2, 0, 0)]
    return [("full", 2, 1, 0), ("reduced", 2, 2, 8), ("reduced", 3, 0, 0)]


def shards(tier, seed):
    out = [{"kind": "symjump"}]
    for kind, L, dev, pl in bounds(tier):
        n = len(grammar.statements(kind))
        for i in range(n):
            out.append({"kind": kind, "L": L, "first": i, "dev": dev, "pairs": pl, "tier": tier})
    return rotate(out, seed)


def run_shard(shard):
    hdriver.install_logging()
    hdriver.install_uid()
    acc = Acc(max_violations=30)
    if shard["kind"] == "symjump":
        check_symjump(acc)
        acc.sample({"program": "JUMP(calldataload(0)) with 2-3 valid destinations under --symbolic-jump", "inputs": "the destinations, their neighbours, 0, 1, code length, 2^255, 2^256-1"})
        return acc.result()
    n = 0
    for stmts in c01.enumerate_programs(shard["kind"], shard["L"], shard["first"], "quick"):
        for layout in c01.layouts_for(stmts):
            check_program(acc, stmts, layout, shard["dev"], shard["pairs"])
        n += 1
        if n == 5:
            acc.sample({"program": grammar.prog_str(stmts), "deviation_bound": shard["dev"],
                        "deviations": "each Path.check call index answered unknown in turn"})
    return acc.result()


def coverage(tier, merged):
    c = merged["counts"]
    return {
        "states": c.get("runs", 0),
        "transitions": c.get("paths", 0),
        "traces_validated_against_impl": c.get("pairs", 0),
        "programs": c.get("programs", 0),
        "runs_including_deviations": c.get("runs", 0),
        "single_and_pair_deviation_runs": c.get("deviations", 0),
        "branching_check_calls_seen": c.get("check_calls", 0),
        "pruning_decisions_rechecked": c.get("decisions_checked", 0),
        "inputs_evaluated": c.get("inputs", 0),
        "deviation_bound_completed": max(b[2] for b in bounds(tier)),
        "bounds": [{"alphabet": k, "max_len": L, "deviations": d, "pairs_if_calls_le": p} for k, L, d, p in bounds(tier)],
        "exhaustive": not merged["capped"],
        "rule": "states = (program, layout, deviation schedule) runs of the real SEVM.run; transitions = reported paths; traces validated = (path, input) "
                "pairs compared with the reference EVM; coverage is checked for every input of the grid in every run",
    }


def replay(case):
    hdriver.install_logging()
    hdriver.install_uid()
    acc = Acc()
    if case.get("symjump"):
        check_symjump(acc)
        v = acc.result()["violations"]
        return {"violated": bool(v), "obs": [x["what"] for x in v][:3]}
    stmts = c01.detuple(case["stmts"])
    force = set(case.get("force") or [])
    spec = c01.mk_spec(stmts, case["layout"], case.get("options"))
    grid = c01.mk_grid(spec)
    results, ncalls, recs = run_with(spec, force)
    issues, stats = progcheck.check_program(spec, grid, want_coverage=True, results=results)
    nd, wit = check_decisions(recs, results[1], grid)
    obs = [f"{i.kind}: {i.detail} inputs={i.inputs}" for i in issues[:3]]
    if wit:
        obs.append(f"pruned: {wit}")
    return {"violated": bool(issues or wit), "obs": obs}
