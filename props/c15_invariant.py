"""C15 - invariant testing covers every bounded call sequence.

Generated projects (mc/invgen.py): a test contract whose setUp() creates 1-2
small stateful targets, forge-std filter getters, and invariant_* functions.
Each project is run by the real halmos.__main__.run_contract for
invariant_depth 0..3.  Ground truth: breadth-first search over all call
sequences on the reference EVM with Foundry's filter-resolution rules.

 verdict   the reference finds a breaking sequence of length <= d  <=>  halmos reports FAIL for that invariant at depth d
           (PASS although a breaking sequence exists is the C15 violation; a FAIL with a valid counterexample although no
           sequence of the - for this grammar complete - reference domain breaks it is reported as well)
 states    every target state the reference reaches in k <= d calls is an instance of some cached frontier state of depth k
           (storage terms evaluated under some assignment of that state's per-call symbols from a small domain)
 filters   calls recorded in the frontier states only use targets / selectors / senders the filters admit
 probes    an assertion failure inside a target reachable within d calls must not leave every test PASS with exit code 0
"""

from __future__ import annotations

import itertools

import z3

from mc import e2e, hdriver, invgen
from mc.core import Acc, rotate

ID = "C15"
LEVEL = "model_checking"
ASSUMPTIONS = [
    "targets: contracts with 1-3 functions out of {inc, dec (guarded), set(uint8), rng(uint8) (two successful paths storing the same term), setb(uint8) (two successful paths differing in one branch condition only), step (advances only from s == 2), pay (reads msg.value), tick (reads block.timestamp), own (sender-specific), bad (assertion inside the target), dbl}; invariants s != c for c in {2,3,5,7,9,12}, s <= 1, t <= 1, and (targets with tick) t <= block.timestamp",
    "reference BFS: arguments of set over {0,1,2,3,4,5,7,9,255,259}, senders over the admitted pool {0xaaa1, 0xaaa2, another}, msg.value in {0,1}, timestamp increments {0,1}; for this grammar every reachable (s,t) relevant to the invariants is reached, so verdicts are compared in both directions",
    "filters follow Foundry's documented resolution: targetContracts (else all created contracts) minus excludeContracts plus the keys of targetSelectors; targetSelectors win over excludeSelectors; targetSenders minus excludeSenders if non-empty, else everything but excludeSenders",
    "the top-level message of a target call does not move msg.value (known modelling decision of halmos, D14): targets only read msg.value, balances are not part of the invariants",
    "tx.origin is over-approximated by halmos in invariant mode and is not read by targets",
]

INVS = [[0, "s", "ne", 2], [0, "s", "ne", 3], [0, "s", "ne", 5], [0, "s", "ne", 7], [0, "s", "ne", 9], [0, "s", "ne", 12], [0, "s", "le", 1], [0, "t", "le", 1]]
FN = ["inc", "dec", "set", "step", "pay", "tick", "own", "bad", "dbl", "rng", "setb"]


def projects(tier):
    out = []
    # single target, every function subset of size 1..2, selected triples
    subsets = [[f] for f in FN] + [list(c) for c in itertools.combinations(FN, 2) if tier == "thorough" or "setb" not in c or c[0] in ("inc", "step")]
    triples = [["inc", "step", "set"], ["inc", "dec", "dbl"], ["set", "step", "own"], ["inc", "own", "pay"], ["inc", "tick", "bad"], ["dbl", "inc", "step"], ["set", "bad", "dec"]]
    if tier == "thorough":
        triples = [list(c) for c in itertools.combinations(FN, 3)]
    for fns in subsets + triples:
        depths = (0, 1, 2, 3) if (tier == "thorough" or len(fns) <= 2) else (2, 3)
        for d in depths:
            if tier == "quick" and len(fns) == 2 and d in (0, 1) and "step" not in fns:
                continue
            invs = INVS + [[0, "t", "lenow", 0]] if "tick" in fns else INVS  # t = timestamp of the last tick(): never in the future
            out.append({"desc": {"targets": [fns], "invariants": invs, "filters": None}, "depth": d})
    # an assertion inside a target, no invariant of the test contract is ever broken
    for fns, d in ((["set", "bad"], 2), (["inc", "bad"], 3), (["inc", "bad"], 2), (["set", "bad", "dec"], 2)):
        out.append({"desc": {"targets": [fns], "invariants": [[0, "s", "le", 255], [0, "t", "le", 5]], "filters": None}, "depth": d})
    # a stored symbolic word compared with a constant by one function and forwarded into a nested call by another (both orders of the
    # function list: halmos explores the targets in ABI order)
    for fns in (["setw", "eq5", "fwd"], ["setw", "fwd", "eq5"], ["setw", "fwd"]):
        for d in ((2,) if tier == "quick" else (1, 2, 3)):
            out.append({"desc": {"targets": [fns], "invariants": [[0, "t", "ne", 7], [0, "t", "ne", 5], [0, "s", "ne", 7], [0, "t", "le", 1]], "filters": None}, "depth": d})
    # same-timestamp sequences: tick() records block.timestamp, hit() sets s = 9 iff it runs at exactly that time
    for d in ((2,) if tier == "quick" else (1, 2, 3)):
        out.append({"desc": {"targets": [["tick", "hit"]], "invariants": [[0, "s", "ne", 9], [0, "t", "le", 1], [0, "t", "lenow", 0]], "filters": None}, "depth": d})
    # states that may be merged only if identical: (a) same stored term, constraints that differ through a chain of constraints;
    # (b) same storage, different admissible future timestamps
    for d in ((2,) if tier == "quick" else (1, 2, 3)):
        out.append({"desc": {"targets": [["eqset", "eq5"]], "invariants": [[0, "t", "ne", 1], [0, "s", "ne", 5], [0, "s", "ne", 12]], "filters": None}, "depth": d})
    for fns in (["arm", "late", "anyt", "early"], ["arm", "anyt", "late", "early"]):
        out.append({"desc": {"targets": [fns], "invariants": [[0, "t", "ne", 9], [0, "s", "ne", 2]], "filters": None}, "depth": 3})
    # target functions whose names are reserved in the test contract only (check_*, invariant_*, prove_*, setUp(), afterInvariant())
    for fns in (["chk"], ["inc", "invx"], ["stp", "aft"], ["prv", "inc"]):
        for d in ((1, 2) if tier == "quick" else (1, 2, 3)):
            out.append({"desc": {"targets": [fns], "invariants": [[0, "s", "ne", 7], [0, "s", "ne", 5], [0, "s", "ne", 3], [0, "s", "ne", 4], [0, "t", "ne", 9]], "filters": None}, "depth": d})
    for d in ((2,) if tier == "quick" else (1, 2, 3)):
        out.append({"desc": {"targets": [["setw", "chain"]], "invariants": [[0, "t", "ne", 1], [0, "t", "ne", 7], [0, "t", "ne", 5]], "filters": None}, "depth": d})
    # the stored sender of an earlier call: the sender filters still hold for it when a later call / the invariant looks at it
    for flt in ({"targetSenders": [invgen.S1]}, {"targetSenders": [invgen.S2]}, {"targetSenders": [invgen.S1, invgen.S2]}, {"excludeSenders": [invgen.S1]},
                {"excludeSenders": [invgen.S1, invgen.S2]}, {"targetSenders": [invgen.S1, invgen.S2], "excludeSenders": [invgen.S2]}):
        full = {"targetSenders": [], "excludeSenders": [], "targetContracts": [], "excludeContracts": [], "targetSelectors": [], "excludeSelectors": []}
        full.update(flt)
        for fns in (["claim"], ["claim", "inc"]):
            for d in (1, 2):
                out.append({"desc": {"targets": [fns], "invariants": [[0, "t", "ne", invgen.S1], [0, "t", "ne", invgen.S2], [0, "t", "ne", invgen.DEFAULT_SENDER], [0, "s", "ne", 2]], "filters": full}, "depth": d})
    # two targets, filters: every combination over a 2-element pool
    two = [["inc", "own"], ["set", "step"]]
    inv2 = [[0, "s", "ne", 2], [0, "s", "ne", 7], [1, "s", "ne", 5], [1, "s", "ne", 3], [0, "s", "le", 1]]
    TS = [[], [invgen.S1], [invgen.S1, invgen.S2], [invgen.S2]]
    ES = [[], [invgen.S1], [invgen.S1, invgen.S2]]
    TC = [[], [0], [0, 1], [1]]
    EC = [[], [1]]
    TSEL = [[], [[0, ["inc"]]], [[0, ["inc"]], [0, ["own"]]], [[1, ["step"]], [1, ["set"]]]]
    ESEL = [[], [[1, ["set"]]], [[0, ["inc"]]]]
    for ts, es, tc, ec, tsel, esel in itertools.product(TS, ES, TC, EC, TSEL, ESEL):
        if tier == "quick":
            # quick: every single-filter and every pair of filter kinds (the rest empty)
            if sum(bool(x) for x in (ts, es, tc, ec, tsel, esel)) > 2:
                continue
        flt = {"targetSenders": ts, "excludeSenders": es, "targetContracts": tc, "excludeContracts": ec, "targetSelectors": tsel, "excludeSelectors": esel}
        out.append({"desc": {"targets": two, "invariants": inv2, "filters": flt}, "depth": 2})
    return out


def name_of(p):
    d = p["desc"]
    f = d.get("filters")
    fs = "" if not f else " filters=" + ",".join(f"{k}={v}" for k, v in f.items() if v)
    return f"targets={d['targets']} depth={p['depth']}{fs}"


# ---------------------------------------------------------------------------
# representation check
# ---------------------------------------------------------------------------

SYM_DOMAIN = sorted({x for d in invgen.ARG_DOMAIN.values() for v in d for x in (v if isinstance(v, tuple) else (v,))}) + [invgen.S1, invgen.S2, invgen.DEFAULT_SENDER]


def storage_terms(ex, addr_int):
    """(s term, t term) of the target at addr in a halmos Exec (solidity layout scalars)"""
    from halmos.utils import con_addr

    st = ex.storage[con_addr(addr_int)]
    out = []
    for slot in (0, 1):
        v = st._mapping.get((slot, 0, 0))
        out.append(v if v is not None else z3.BitVecVal(0, 256))
    return out


def free_syms(terms):
    found = {}

    def walk(t, seen):
        if t.get_id() in seen:
            return
        seen.add(t.get_id())
        if z3.is_const(t) and t.decl().kind() == z3.Z3_OP_UNINTERPRETED and z3.is_bv(t):
            found[t.decl().name()] = t
        for c in t.children():
            walk(c, seen)

    seen = set()
    for t in terms:
        if z3.is_expr(t):
            walk(t, seen)
    return found


def instances(ex, addrs_halmos, limit=4000):
    """set of concrete target-state tuples this symbolic frontier state stands for, over SYM_DOMAIN assignments of its symbols
    that satisfy the (sliced) path conditions mentioning only those symbols"""
    terms = []
    for a in addrs_halmos:
        terms += storage_terms(ex, a)
    conds = list(ex.path.conditions.keys())
    syms = free_syms(terms)
    relevant = []
    for c in conds:
        fs = free_syms([c])
        if fs and set(fs) <= set(syms) | {n for n in fs if n.startswith(("halmos_msg_sender", "halmos_msg_value", "halmos_block_timestamp", "p_"))}:
            relevant.append(c)
    allsyms = dict(syms)
    for c in relevant:
        allsyms.update(free_syms([c]))
    names = sorted(allsyms)
    out = set()
    n = 0
    doms = []
    for nm in names:
        if "timestamp" in nm:
            doms.append([1, 2, 3, 4])
        elif "msg_value" in nm:
            doms.append([0, 1])
        elif "msg_sender" in nm or "tx_origin" in nm:
            doms.append([invgen.S1, invgen.S2, invgen.DEFAULT_SENDER])
        else:
            doms.append(SYM_DOMAIN[:-3])
    # depth-first over the symbols in order, substituting one at a time and pruning as soon as a condition has become false: complete
    # over the product of the domains (chains of equalities cut it down to a few hundred leaves), no cap on the prefix explored
    order = sorted(range(len(names)), key=lambda i: len(doms[i]))

    def dfs(pos, conds_now, terms_now):
        nonlocal n
        if pos == len(order):
            n += 1
            vals = []
            for g in terms_now:
                g = z3.simplify(g) if z3.is_expr(g) else g
                vals.append(g.as_long() if z3.is_expr(g) and z3.is_bv_value(g) else (g if isinstance(g, int) else None))
            out.add(tuple(vals))
            return
        i = order[pos]
        sym = allsyms[names[i]]
        for v in doms[i]:
            sub = (sym, z3.BitVecVal(v, sym.size()))
            nxt = []
            ok = True
            for c in conds_now:
                g = z3.simplify(z3.substitute(c, sub))
                if z3.is_false(g):
                    ok = False
                    break
                if not z3.is_true(g):
                    nxt.append(g)
            if not ok:
                continue
            dfs(pos + 1, nxt, [z3.substitute(t, sub) if z3.is_expr(t) else t for t in terms_now])

    dfs(0, list(relevant), list(terms))
    return out


class CexSeam:
    """records the execution state of every potential violation handed to the solver (seam: CounterexampleHandler.handle_assertion_violation
    rebound in the harness process), so that a reported counterexample can be turned back into a concrete call sequence"""

    def __init__(self):
        self.installed = False
        self.rec = None
        self.models = []

    def path_of(self, model):
        for mm, sig, pid in self.models:
            if mm is model:
                return pid
        return None

    def install(self):
        if self.installed:
            return
        import halmos.__main__ as M

        me = self
        orig = M.CounterexampleHandler.handle_assertion_violation

        def handle(h, path_id, ex, panic_found, description=None):
            if me.rec is not None and not h.is_probe:
                me.rec[(h.ctx.info.sig, path_id)] = ex
            return orig(h, path_id, ex, panic_found, description)

        orig_cb = M.CounterexampleHandler._solve_end_to_end_callback

        def cb(h, future, ex, path_ctx, description):
            # which path a reported model belongs to (PotentialModel carries no path id)
            if me.rec is not None and not h.is_probe:
                try:
                    out = future.result()
                    if out.model is not None:
                        me.models.append((out.model, h.ctx.info.sig, out.path_id))
                except Exception:
                    pass
            return orig_cb(h, future, ex=ex, path_ctx=path_ctx, description=description)

        M.CounterexampleHandler.handle_assertion_violation = handle
        M.CounterexampleHandler._solve_end_to_end_callback = cb
        self.installed = True


cexseam = CexSeam()
TS_NAME = __import__("re").compile(r"^halmos_block_timestamp_depth(\d+)_")


def ground(term, model):
    """value of a halmos term under a model (name -> int); symbols the model does not mention are unconstrained: 0"""
    if isinstance(term, (bytes, int)):
        return term
    if hasattr(term, "as_z3"):
        term = term.as_z3()
    sub = []
    for nm, sym in free_syms([term]).items():
        sub.append((sym, z3.BitVecVal(model.get(nm, 0), sym.size())))
    g = z3.simplify(z3.substitute(term, *sub)) if sub else z3.simplify(term)
    if not z3.is_bv_value(g):
        raise ValueError(f"cannot ground {str(term)[:80]}")
    return g.as_long()


def replay_counterexample(P, sig, ex, model, panic_codes=(1,)):
    """executes the call sequence of a reported invariant counterexample, with the model's values, on the reference EVM and
    then the invariant; returns None if the invariant breaks, else a description of what happened instead"""
    w = e2e.ref_deploy(P.test, extra=None)
    o = e2e.ref_call(w, "setUp()")
    if o.kind != "success":
        return f"reference setUp failed: {o.kind}"
    # the timeline halmos uses: call k runs at the time chosen after call k-1 (the first at setUp's time); the invariant at the last one
    ts = {}
    for c in ex.path.conditions:
        for nm in free_syms([c]):
            m = TS_NAME.match(nm)
            if m:
                ts[int(m.group(1))] = nm
    now = w.block["timestamp"]
    steps = []
    for k, call in enumerate(ex.call_sequence, start=1):
        msg = call.message
        tgt = ground(msg.target, model)
        caller = ground(msg.caller, model)
        value = ground(msg.value, model)
        d = msg.data.unwrap()
        if not isinstance(d, bytes):
            n = d.size() // 8
            d = ground(d, model).to_bytes(n, "big")
        w.block["timestamp"] = now
        r = e2e.ref_call(w, d, panic_codes=panic_codes, value=value, caller=caller, origin=caller, target=tgt)
        steps.append(f"{caller:#x}->{tgt:#x}.{d[:4].hex()}({d[4:].hex()[:16]}) value={value} t={now}: {r.kind}")
        if r.kind != "success":
            return f"call {k} of the reported sequence does not succeed on the EVM: {steps}"
        if k in ts and ts[k] in model:
            nxt = model[ts[k]]
            if nxt < now:
                return f"the counterexample makes block.timestamp decrease after call {k}: {now} -> {nxt}"
            now = nxt
    w.block["timestamp"] = now
    r = e2e.ref_call(w, sig, panic_codes=panic_codes)
    if r.kind != "fail":
        return f"after the reported sequence {steps} the invariant {sig} does not fail on the EVM ({r.kind})"
    return None


def check_project(acc, p):
    desc, depth = p["desc"], p["depth"]
    name = name_of(p)
    case = {"project": p}
    P = invgen.Project(desc)
    sigs = P.invariant_sigs()
    acc.count("projects")
    cexseam.install()
    cexseam.rec = {}
    cexseam.models = []
    try:
        rr = e2e.run_contract(P.test, funsigs=sigs, options={"invariant_depth": depth, "solver_timeout_assertion": "10s"}, others=P.targets)
    finally:
        recorded, cexseam.rec = cexseam.rec, None
    if rr.exception is not None or len(rr.results) != len(sigs):
        acc.violation(f"no-results:{name}", f"{name}: run_contract gave no results: {rr.exception!r} {rr.logs[-2:]} {rr.stdout[-300:]}", case)
        return
    ref = invgen.reference_bfs(P, depth)
    # the same search with no time passing between setUp and the first call: used only to *name* disagreements that are due to it
    ref_nt = invgen.reference_bfs(P, depth, first_call_at_setup_time=True) if any(tf in t for t in desc["targets"] for tf in invgen.TIME_FUNCS) else ref
    warns = [m for (lvl, m) in rr.logs if lvl in ("WARNING", "ERROR")]
    by = rr.by_name()
    acc.count("reference_states", sum(len(v) for v in ref["states"].values()))
    # ---- verdicts
    for k, sig in enumerate(sigs):
        r = by[sig]
        acc.count("tests")
        bd = ref["broken"].get(k)
        ref_broken = bd is not None and bd <= depth
        acc.outcome((r.exitcode, ref_broken))
        inv = desc["invariants"][k]
        if ref_broken and r.exitcode == 0 and not any(sig in w for w in warns):
            bd2 = ref_nt["broken"].get(k)
            if not (bd2 is not None and bd2 <= depth):
                acc.violation(f"first-call-time:missed:{inv}:{name}", f"{name}: invariant {inv} is broken by a sequence of {bd} call(s) whose FIRST call happens at a later block.timestamp than setUp(); halmos reports PASS for {sig} (it only advances time after a call)", case)
                return
            acc.violation(f"missed:{inv}:{name}", f"{name}: invariant {inv} is broken by a sequence of {bd} call(s) (reference BFS) but halmos reports PASS for {sig} without warning", case)
            return
        if not ref_broken and r.exitcode == 1 and any(m.is_valid for m in (r.models or [])):
            acc.violation(f"spurious:{inv}:{name}", f"{name}: halmos reports FAIL with a valid counterexample for {sig} ({inv}) but no sequence of <= {depth} calls over the reference domain breaks it", case)
            return
        # every counterexample marked valid comes with a call sequence that reproduces the break
        for m in r.models or []:
            pid = cexseam.path_of(m)
            if not m.is_valid or (sig, pid) not in recorded:
                continue
            acc.count("counterexample_sequences_replayed")
            try:
                bad = replay_counterexample(P, sig, recorded[(sig, pid)], {k2: v.value for k2, v in m.model.items()})
            except ValueError as e:
                acc.count("counterexample_sequences_not_groundable")
                acc.notes.append(f"{name}: {e}")
                continue
            if bad:
                acc.violation(f"cex-replay:{inv}:{name}", f"{name}: the counterexample reported for {sig} ({inv}) does not reproduce: {bad}"[:900], case)
                return
    # ---- probes (assertion inside a target)
    pf = ref["probe_fail_depth"]
    if pf is not None and pf <= depth:
        acc.count("projects_with_reachable_target_assertion")
        reported = "Assertion failure detected" in rr.stdout
        if not reported:
            acc.violation(f"probe-unreported:{name}", f"{name}: an assertion inside a target fails after {pf} call(s) but halmos prints no assertion failure", case)
            return
        if all(r.exitcode == 0 for r in rr.results):
            acc.violation(f"probe-not-failed:{name}", f"{name}: an assertion inside a target fails after {pf} call(s); halmos prints the counterexample but every test is PASS (exit code 0)", case)
            # keep going: the other oracles still apply
    # ---- representation of every reachable concrete state
    fs = rr.ctx.frontier_states
    addrs_h = None
    try:
        ex0 = fs[0][0]
        from halmos.utils import con_addr

        tst = ex0.storage[con_addr(e2e.TEST)]
        addrs_h = []
        for i in range(len(desc["targets"])):
            v = tst._mapping.get((invgen.TARGET_SLOT + i, 0, 0))
            addrs_h.append(z3.simplify(v).as_long())
    except Exception as e:
        acc.notes.append(f"cannot read target addresses from the setUp state: {e!r}")
    if addrs_h is not None:
        reps = {}
        complete = True
        for k in range(0, depth + 1):
            if k not in fs:
                continue
            s = set()
            for ex in fs[k]:
                inst = instances(ex, addrs_h)
                if any(v is None for tup in inst for v in tup):
                    complete = False
                s |= {tup for tup in inst}
            reps[k] = s
        if complete:
            allreps = set().union(*reps.values()) if reps else set()
            for k, states in ref["states"].items():
                if k > depth:
                    continue
                upto = set().union(*[reps.get(j, set()) for j in range(0, k + 1)])
                for st in states:
                    flat = tuple(x for pair in st for x in pair)
                    acc.count("states_checked")
                    if flat not in upto:
                        if st not in set().union(*[ref_nt["states"].get(j, set()) for j in range(0, k + 1)]):
                            acc.violation(f"first-call-time:unrepresented:{name}", f"{name}: target state (s,t)={st} needs the FIRST call to happen at a later block.timestamp than setUp(); no frontier state of depth <= {k} has it as an instance", case)
                            return
                        acc.violation(f"unrepresented:{name}", f"{name}: target state (s,t)={st} is reached by the reference in {k} call(s) but no frontier state of depth <= {k} has it as an instance (frontier sizes { {d: len(v) for d, v in fs.items()} })", case)
                        return
        else:
            acc.count("projects_without_representation_check")
    # ---- filters are honoured by every explored call
    calls_ok = {(ref["addrs"][ti], invgen.FUNCS[f][0]) for ti, f in ref["calls"]}
    if addrs_h is not None:
        admitted = {(addrs_h[ti], e2e.sel(invgen.FUNCS[f][0])) for ti, f in ref["calls"]}
        # calling a view function changes nothing: not a filter violation (halmos includes them when excludeSelectors is given)
        admitted |= {(a, e2e.sel("get()")) for a in addrs_h if any(a == x for x, _ in admitted)}
        for k, exs in fs.items():
            for ex in exs:
                for call in ex.call_sequence:
                    tgt = call.message.target
                    tgt = z3.simplify(tgt.as_z3() if hasattr(tgt, "as_z3") else tgt).as_long()
                    selb = call.message.data[:4].unwrap()
                    seli = int.from_bytes(selb, "big") if isinstance(selb, bytes) else None
                    acc.count("calls_checked")
                    if (tgt, seli) not in admitted:
                        acc.violation(f"filter:{name}", f"{name}: an explored sequence calls {tgt:#x}::{seli:#010x}, which the filters do not admit (admitted: {sorted((hex(a), hex(s)) for a, s in admitted)})", case)
                        return
    acc.state(name)
    if len(acc.samples) < 2:
        acc.sample({"project": name, "halmos_exitcodes": [by[s].exitcode for s in sigs], "reference_broken_at_depth": ref["broken"], "frontier_sizes": {d: len(v) for d, v in fs.items()},
                    "reference_states_per_depth": {d: len(v) for d, v in ref["states"].items()}})


NSHARDS = 64


def shards(tier, seed):
    ps = projects(tier)
    ps = rotate(ps, seed)
    return [{"projects": ps[i::NSHARDS]} for i in range(NSHARDS) if ps[i::NSHARDS]]


def run_shard(shard):
    hdriver.install_logging()
    hdriver.install_uid()
    acc = Acc(max_violations=30)
    for p in shard["projects"]:
        check_project(acc, p)
    return acc.result()


def coverage(tier, merged):
    c = merged["counts"]
    return {
        "states": c.get("reference_states", 0),
        "transitions": c.get("calls_checked", 0),
        "traces_validated_against_impl": c.get("tests", 0),
        "projects_run_end_to_end": c.get("projects", 0),
        "invariant_tests_compared_with_reference_bfs": c.get("tests", 0),
        "reference_states_checked_for_representation": c.get("states_checked", 0),
        "explored_calls_checked_against_filters": c.get("calls_checked", 0),
        "projects_with_reachable_target_assertion": c.get("projects_with_reachable_target_assertion", 0),
        "exhaustive": not merged["capped"],
        "counterexample_call_sequences_replayed_on_reference": c.get("counterexample_sequences_replayed", 0),
        "rule": "states = target states reached by the reference BFS; transitions = calls in halmos's cached frontier call sequences checked against the filters; traces validated = invariant tests whose verdict "
                "was compared with the reference BFS over all call sequences up to the depth",
    }


def replay(case):
    hdriver.install_logging()
    hdriver.install_uid()
    acc = Acc()
    check_project(acc, case["project"])
    v = acc.result()["violations"]
    return {"violated": bool(v), "obs": [x["what"] for x in v][:3], "key": v[0]["key"] if v else ""}
