"""C20 - tests are isolated from each other and results are deterministic.

A generated contract with regular tests (failing, passing, state-writing,
state-reading, hashing at run time, reading a hash-valued constant slot,
re-reading calldata after a branch) and invariant tests (sharing the frontier
cache) is run by the real run_contract for every ordered subset of its tests
(quick: up to 2, selected triples; thorough: up to 3), every doubling, three
injective generators of the random symbol suffixes, and repeatedly in one
process.  Each test's normalised result must equal its solo result, and the
solo result must agree with a brute force on the reference EVM (PASS: no
failing input in the domain; valid counterexamples replay)."""

from __future__ import annotations

import itertools
import re

from eth_hash.auto import keccak

from mc import asm, e2e, hdriver, invgen, testgen
from mc.core import Acc, rotate

ID = "C20"
LEVEL = "model_checking"
ASSUMPTIONS = [
    "one generated contract: setUp() stores s = 7, a value at the hash-valued constant slot keccak(0x1234) and creates an invariant target {inc, step}; tests: fail (x == 42), pass (infeasible), write (stores x then reads it), read (s must be 7), hash (keccak(0x1234) computed at run time), slot (reads the constant slot), reread (re-reads calldata after a branch; can never fail), five (same shape; fails exactly for x == 5), two invariant tests at depth 2; addr1/addr2 (vm.addr(1) != vm.addr(2), without and with a branch before it); ts (setUp() records block.timestamp then warps: every run starts from the default block); kk (keccak(x) != keccak(x+1) after a branch: each sibling path carries its own hash assumptions); tshare (TSTORE here, TLOAD of the same slot in the target: per-account transient storage); ext1/ext2 (read the code size / code hash of a symbolic address created in setUp: the alias candidates must be considered afresh by every test); loop (needs three loop iterations; the contract-level annotation says --loop 4) and ann (function-level annotation --loop 1)",
    "histories: every ordered subset of the tests up to the bound, every test doubled, the same history run twice in one process, three injective uid() generators (counter, reversed, multiplicative)",
    "normalised result = (exit code, path counts, number of counterexamples, validity flags, replay outcome of every valid counterexample, number of bounded loops); concrete model values are not compared (solvers may return any model), their replay on the reference EVM is",
    "solo results are additionally compared with a brute force over x in {0,1,5,7,42,2^256-1} on mc/refevm.py",
]

PRE = 0x1234
CSLOT = int.from_bytes(keccak(PRE.to_bytes(32, "big")), "big")
X = e2e.arg(0)


def contract():
    t = invgen.mk_target("Target0", ["inc", "step", "tget"])
    init = t.creation()
    new_addr = e2e.svm("createAddress(string)", [("push", 32)], retsize=32, mem=0x80, pop=True) + [("push", 0x80), "MLOAD", ("push", 3), "SSTORE"]
    # the block of a run starts from the default (timestamp 1) whatever an earlier run warped it to: setUp() records the timestamp, then warps
    stamp = ["TIMESTAMP", ("push", 4), "SSTORE"] + e2e.vm("warp(uint256)", [("push", 1000)])
    setup = stamp + new_addr + [("push", 7), "PUSH0", "SSTORE", ("push", 42), ("pushn", 32, CSLOT), "SSTORE",
             ("sizeof", "init0"), ("offsetof", "init0"), ("push", 0x100), "CODECOPY", ("sizeof", "init0"), ("push", 0x100), "PUSH0", "CREATE", ("push", invgen.TARGET_SLOT), "SSTORE",
             "STOP", ("data", "init0", init)]
    F = {"setUp()": setup}
    F["check_fail(uint256)"] = e2e.if_then(X + [("push", 42), "EQ"], e2e.panic(1), "a") + ["STOP"]
    F["check_pass(uint256)"] = e2e.if_then(X + [("push", 3), "LT"], e2e.if_then([("push", 5)] + X + ["GT"] if False else X + [("push", 5), "LT"], e2e.panic(1), "b"), "a") + ["STOP"]  # x > 3 and x < 5 ... see below
    # x < 3 and x > 5: infeasible
    F["check_pass(uint256)"] = e2e.if_then([("push", 3)] + X + ["LT"], e2e.if_then([("push", 5)] + X + ["GT"], e2e.panic(1), "b"), "a") + ["STOP"]
    F["check_write(uint256)"] = X + ["PUSH0", "SSTORE"] + e2e.if_then(["PUSH0", "SLOAD", ("push", 5), "EQ"], e2e.panic(1), "a") + ["STOP"]
    F["check_read(uint256)"] = e2e.if_then(["PUSH0", "SLOAD", ("push", 7), "EQ", "ISZERO"], e2e.panic(1), "a") + ["STOP"]
    F["check_hash(uint256)"] = [("push", PRE), "PUSH0", "MSTORE", ("push", 32), "PUSH0", "SHA3", "POP"] + e2e.if_then(X + [("push", 1), "EQ"], e2e.panic(1), "a") + ["STOP"]
    F["check_slot(uint256)"] = e2e.if_then([("pushn", 32, CSLOT), "SLOAD", ("push", 42), "EQ", "ISZERO"], e2e.panic(1), "a") + ["STOP"]
    # if (x == 5) {} ; y = calldataload(4) ; assert(y == x)   -- can never fail
    F["check_reread(uint256)"] = e2e.if_then(X + [("push", 5), "EQ"], [], "a") + e2e.if_then(X + X + ["EQ", "ISZERO"], e2e.panic(1), "b") + ["STOP"]
    # if (x == 5) {} ; y = calldataload(4) ; assert(y != 5)   -- fails exactly for x == 5
    F["check_five(uint256)"] = e2e.if_then(X + [("push", 5), "EQ"], [], "a") + e2e.if_then(X + [("push", 5), "EQ"], e2e.panic(1), "b") + ["STOP"]
    F["invariant_a()"] = invgen.invariant_body(0, "s", "ne", 2)
    F["invariant_b()"] = invgen.invariant_body(0, "s", "ne", 5)
    # configuration layers: the contract says --loop 4, check_ann() alone says --loop 1; check_loop needs three iterations
    # n = x & 3; i = 0; while (i < n) i++; assert(i != 3)
    n = X + [("push", 3), "AND"]
    F["check_loop(uint256)"] = ["PUSH0", ("label", "top")] + n + ["DUP2", "LT", "ISZERO", ("ref", "exit"), "JUMPI", ("push", 1), "ADD", ("ref", "top"), "JUMP", ("label", "exit")] + \
        e2e.if_then(["DUP1", ("push", 3), "EQ"], e2e.panic(1), "f") + ["STOP"]
    F["check_ann(uint256)"] = e2e.if_then(X + [("push", 1), "EQ"], e2e.panic(1), "a") + ["STOP"]
    # transient storage is per account: what this contract TSTOREs at slot 0 is not what the target TLOADs at its slot 0
    F["check_tshare(uint256)"] = [("push", 7), "PUSH0", "TSTORE"] + [("pushn", 4, e2e.sel("tget()")), ("push", 224), "SHL", "PUSH0", "MSTORE",
                                  ("push", 32), ("push", 0x40), ("push", 4), "PUSH0", ("push", invgen.TARGET_SLOT), "SLOAD", ("push", 0xFFFFFF), "STATICCALL", "POP"] + \
        e2e.if_then([("push", 0x40), "MLOAD"], e2e.panic(1), "a") + ["STOP"]
    # vm.addr of two different keys gives two different addresses, on every path (the assumption is part of each path's own condition)
    def addr_ne():
        return (e2e.vm("addr(uint256)", [("push", 1)], retsize=32, mem=0x80) + [("push", 0x80), "MLOAD"] +
                e2e.vm("addr(uint256)", [("push", 2)], retsize=32, mem=0x80) + [("push", 0x80), "MLOAD", "EQ"])

    F["check_addr1(uint256)"] = e2e.if_then(addr_ne(), e2e.panic(1), "a") + ["STOP"]
    F["check_addr2(uint256)"] = e2e.if_then(X + ["ISZERO"], [], "b") + e2e.if_then(addr_ne(), e2e.panic(1), "a") + ["STOP"]
    F["check_ts(uint256)"] = e2e.if_then([("push", 4), "SLOAD", ("push", 1), "EQ", "ISZERO"], e2e.panic(1), "a") + e2e.if_then(["TIMESTAMP", ("push", 1000), "EQ", "ISZERO"], e2e.panic(1), "b") + ["STOP"]
    # if (x < 100) {} ; assert(keccak(x) != keccak(x + 1))  -- the hashes are first computed after the branch: each sibling needs its own injectivity assumptions
    kk = X + ["PUSH0", "MSTORE", ("push", 32), "PUSH0", "SHA3"] + X + [("push", 1), "ADD", "PUSH0", "MSTORE", ("push", 32), "PUSH0", "SHA3", "EQ"]
    F["check_kk(uint256)"] = e2e.if_then(X + [("push", 100), "GT"], [], "b") + e2e.if_then(kk, e2e.panic(1), "a") + ["STOP"]
    # a symbolic address created in setUp(): each test that touches it must consider every account it may denote
    A3 = [("push", 3), "SLOAD"]
    F["check_ext1(uint256)"] = e2e.if_then(A3 + ["EXTCODESIZE", ("push", len(t.runtime())), "EQ"], e2e.panic(1), "a") + ["STOP"]  # fails iff a is the target
    F["check_ext2(uint256)"] = e2e.if_then(A3 + ["EXTCODEHASH", "ISZERO"], e2e.panic(1), "a") + ["STOP"]  # fails iff a is a non-existent account
    return e2e.Contract("Iso", F, natspec="@custom:halmos --loop 4", devdoc={"check_ann(uint256)": "--loop 1"}), t


TESTS = ["check_fail(uint256)", "check_pass(uint256)", "check_write(uint256)", "check_read(uint256)", "check_hash(uint256)", "check_slot(uint256)",
         "check_reread(uint256)", "check_five(uint256)", "invariant_a()", "invariant_b()", "check_loop(uint256)", "check_ann(uint256)", "check_ext1(uint256)", "check_ext2(uint256)", "check_tshare(uint256)", "check_addr1(uint256)", "check_addr2(uint256)", "check_ts(uint256)", "check_kk(uint256)"]
# ground truth: the inputs (of the brute-force domain) that make each regular test fail
DOM = [0, 1, 5, 7, 42, 2**256 - 1]
EXPECT_FAIL = {"check_fail(uint256)": [42], "check_pass(uint256)": [], "check_write(uint256)": [5], "check_read(uint256)": [], "check_hash(uint256)": [1],
               "check_slot(uint256)": [], "check_reread(uint256)": [], "check_five(uint256)": [5], "check_loop(uint256)": [7, 2**256 - 1], "check_ann(uint256)": [1], "check_tshare(uint256)": [], "check_addr1(uint256)": [], "check_addr2(uint256)": [], "check_ts(uint256)": [], "check_kk(uint256)": []}
EXPECT_EXIT = {"check_ext1(uint256)": 1, "check_ext2(uint256)": 1}  # decided by the symbolic address of setUp(), not by x
EXPECT_INV = {"invariant_a()": 1, "invariant_b()": 0}  # at depth 2: s reaches 2 (inc, inc) -> a fails; 5 needs inc, inc, step -> b passes


def model_x(m):
    for k, v in m.model.items():
        if re.match(r"^p_a0_uint256_", k):
            return v.value
    return 0


def normalise(r, world0, c):
    if r is None:
        return None
    replays = []
    for m in r.models or []:
        if r.name.startswith("check_") and m.is_valid:
            o = e2e.ref_call(e2e.clone_world(world0), r.name, [model_x(m)])
            replays.append(o.kind)
        else:
            replays.append("valid" if m.is_valid else "invalid")
    return (r.exitcode, tuple(r.num_paths or ()), len(r.models or []), tuple(sorted(replays)), r.num_bounded_loops)


_CACHE = {}


def run_history(hist, uid_mode, depth=2):
    c, t = _CACHE.get("c") or contract()
    _CACHE["c"] = (c, t)
    hdriver.install_uid(uid_mode)
    rr = e2e.run_contract(c, funsigs=list(hist), options={"invariant_depth": depth, "solver_timeout_assertion": "20s"}, others=[t])
    return rr, c


def ref_world(c):
    if "w" not in _CACHE:
        w = e2e.ref_deploy(c, tape=[0x1234])  # the reference's setUp() draws an address without code for svm.createAddress
        o = e2e.ref_call(w, "setUp()")
        assert o.kind == "success", o
        _CACHE["w"] = w
    return _CACHE["w"]


def solo_results(acc, uid_mode="counter"):
    key = ("solo", uid_mode)
    if key in _CACHE:
        return _CACHE[key]
    out = {}
    for tname in TESTS:
        rr, c = run_history([tname], uid_mode)
        w = ref_world(c)
        r = rr.results[0] if rr.results else None
        out[tname] = normalise(r, w, c)
        acc.count("solo_runs")
        case = {"kind": "solo", "test": tname, "uid": uid_mode}
        if r is None:
            acc.violation(f"solo-no-result:{tname}", f"{tname} alone: no result ({rr.exception!r} {rr.logs[-2:]})", case)
            continue
        # ground truth
        if tname in EXPECT_FAIL:
            fails = [x for x in DOM if e2e.ref_call(e2e.clone_world(w), tname, [x]).kind == "fail"]
            assert fails == EXPECT_FAIL[tname], (tname, fails)
            if fails and r.exitcode == 0:
                acc.violation(f"solo-missed:{tname}", f"{tname} alone: PASS although x={fails[0]} fails", case)
            if not fails and r.exitcode == 1 and any(m.is_valid for m in r.models or []):
                acc.violation(f"solo-spurious:{tname}", f"{tname} alone: FAIL with a valid counterexample although no input makes it fail (state leaked between sibling paths?)", case)
            if fails and r.exitcode == 1 and "success" in out[tname][3]:
                acc.violation(f"solo-cex:{tname}", f"{tname} alone: a counterexample marked valid does not replay (x={[model_x(m) for m in r.models]})", case)
        elif tname in EXPECT_EXIT:
            if r.exitcode != EXPECT_EXIT[tname]:
                acc.violation(f"solo-ext:{tname}", f"{tname} alone: exit code {r.exitcode}, expected {EXPECT_EXIT[tname]} (the address created in setUp() may denote the target / no account)", case)
        else:
            if r.exitcode != EXPECT_INV[tname]:
                acc.violation(f"solo-inv:{tname}", f"{tname} alone at depth 2: exit code {r.exitcode}, expected {EXPECT_INV[tname]}", case)
    _CACHE[key] = out
    return out


def check_history(acc, hist, uid_mode, twice=False):
    solo = solo_results(acc, "counter")
    name = " ; ".join(h.split("(")[0] for h in hist) + f" [uid={uid_mode}{', twice' if twice else ''}]"
    case = {"kind": "hist", "hist": hist, "uid": uid_mode, "twice": twice}
    for rep in range(2 if twice else 1):
        rr, c = run_history(hist, uid_mode)
        acc.count("histories")
        w = ref_world(c)
        if rr.exception is not None or len(rr.results) != len(hist):
            acc.violation(f"no-results:{name}", f"history {name}: {len(rr.results)} results for {len(hist)} tests ({rr.exception!r})", case)
            return
        for pos, (tname, r) in enumerate(zip(hist, rr.results)):
            acc.count("tests")
            got = normalise(r, w, c)
            acc.outcome((tname, got[0]))
            if got != solo[tname]:
                acc.violation(f"differs:{tname}:after:{'+'.join(h.split('(')[0] for h in hist[:pos]) or 'nothing'}",
                              f"history {name}: {tname} at position {pos + 1} (run {rep + 1}) gives {got}, alone it gives {solo[tname]}  (exit code, paths, #counterexamples, replays, bounded loops)", case)
                return
    acc.state(name)


def histories(tier):
    out = []
    for t in TESTS:
        out.append([t, t])
    for a, b in itertools.permutations(TESTS, 2):
        out.append([a, b])
    triples = [["check_hash(uint256)", "check_slot(uint256)", "check_slot(uint256)"], ["check_write(uint256)", "check_read(uint256)", "check_slot(uint256)"],
               ["invariant_a()", "check_write(uint256)", "invariant_b()"], ["invariant_b()", "invariant_a()", "check_read(uint256)"], ["check_five(uint256)", "check_reread(uint256)", "check_fail(uint256)"],
               ["check_fail(uint256)", "invariant_a()", "check_fail(uint256)"], ["check_hash(uint256)", "invariant_a()", "check_slot(uint256)"]]
    if tier == "thorough":
        triples = [list(p) for p in itertools.permutations(TESTS, 3)]
    out += triples
    out.append(list(TESTS))
    out.append(list(reversed(TESTS)))
    return out


def shards(tier, seed):
    hs = histories(tier)
    cases = [{"hist": h, "uid": "counter", "twice": False} for h in hs]
    for h in hs[: len(TESTS)] + hs[len(TESTS) : len(TESTS) + 30 : 3] + hs[-2:]:
        cases.append({"hist": h, "uid": "rev", "twice": False})
        cases.append({"hist": h, "uid": "mult", "twice": False})
    for h in hs[-2:] + hs[len(TESTS) : len(TESTS) + 20 : 4]:
        cases.append({"hist": h, "uid": "counter", "twice": True})
    cases = rotate(cases, seed)
    n = 64
    return [{"cases": cases[i::n]} for i in range(n) if cases[i::n]]


def run_shard(shard):
    hdriver.install_logging()
    hdriver.install_uid()
    acc = Acc(max_violations=30)
    for cs in shard["cases"]:
        check_history(acc, cs["hist"], cs["uid"], cs["twice"])
    if shard["cases"]:
        acc.sample({"history": shard["cases"][0]["hist"], "uid_generator": shard["cases"][0]["uid"], "solo_results": {k: str(v) for k, v in list(solo_results(acc).items())[:4]}})
    return acc.result()


def coverage(tier, merged):
    c = merged["counts"]
    return {
        "states": len(merged["states"]),
        "transitions": c.get("tests", 0),
        "traces_validated_against_impl": c.get("tests", 0),
        "histories_run": c.get("histories", 0),
        "test_results_compared_with_solo": c.get("tests", 0),
        "solo_runs": c.get("solo_runs", 0),
        "exhaustive": not merged["capped"],
        "rule": "states = histories (ordered subsets / doublings of the tests, uid generator, repeated runs) whose every test result equalled its solo result; transitions = test executions compared",
    }


def replay(case):
    hdriver.install_logging()
    hdriver.install_uid()
    _CACHE.clear()
    acc = Acc()
    if case["kind"] == "solo":
        solo_results(acc, case.get("uid", "counter"))
    else:
        check_history(acc, case["hist"], case["uid"], case.get("twice", False))
    v = acc.result()["violations"]
    return {"violated": bool(v), "obs": [x["what"] for x in v][:3], "key": v[0]["key"] if v else ""}
