"""C08 - storage reads return the last write to the same slot; no aliasing.

Programs are sequences of SSTORE/SLOAD (and TSTORE/TLOAD) over *location
expressions* (scalars, mappings, nested mappings, dynamic arrays, struct
offsets, packed-key mappings, the same location written as a run-time hash of
concrete data / of symbolic data / as a precomputed constant, commuted
additions), executed by the real SEVM.run in both storage layouts and compared
with the reference EVM (flat 2^256-slot dict, real keccak) for every valuation
of the symbolic keys in a small colliding domain.  Plus complete sweeps of the
precomputed keccak tables and of OffsetMap against a dict model.
"""

from __future__ import annotations

import itertools

from eth_hash.auto import keccak

from mc import grammar, hdriver, progcheck
from mc.asm import expr_str
from mc.core import Acc, rotate
from mc.grammar import K0, K1, K2, X, Y

ID = "C08"
LEVEL = "model_checking"
ASSUMPTIONS = [
    "location expressions from the grammar in props/c08_storage.py; symbolic keys/indices x, y range over {0,1,2} (colliding with the concrete keys and slots used)",
    "reference: flat dict with real keccak; loaded values are observed as return data",
    "paths halmos marks stuck (e.g. a symbolic plain slot under the solidity layout) make no claim here (C10 demands the non-PASS status)",
    "symbolic storage (vm.enableSymbolicStorage): the same programs with the account's storage symbolic; the reference starts from the admissible initial state 'every slot holds 0x77', so a never-written slot must read 0x77 on some reported path and a written one its last write",
    "hash range/injectivity are documented assumptions of halmos; the domain stays far from the excluded range",
]

KECCAK1 = {i: int.from_bytes(keccak(i.to_bytes(32, "big")), "big") for i in range(4)}
HBIG1 = int.from_bytes(keccak((12345).to_bytes(32, "big")), "big")
HBIG2 = int.from_bytes(keccak((7).to_bytes(32, "big") + (300).to_bytes(32, "big")), "big")
KECCAK2 = {(k, s): int.from_bytes(keccak(k.to_bytes(32, "big") + s.to_bytes(32, "big")), "big") for k in range(3) for s in range(3)}


def locations(level):
    L = []
    full = level == "full"
    # scalars
    L += [K0, K1] + ([("k", 2**255)] if full else [])
    # mapping m[k] at slot s
    for k in ([X, Y, K1, K2] if full else [X, K1]):
        for s in ([K0, K1] if full else [K1]):
            L.append(("keccak2", k, s))
    # nested mapping m[k1][k2]
    L.append(("keccak2", Y, ("keccak2", X, K1)))
    L.append(("keccak2", K2, ("keccak2", K1, K1)))  # every key concrete: the inner hash is a constant inside a constant preimage
    if full:
        L.append(("keccak2", K1, ("keccak2", X, K1)))
        L.append(("keccak2", X, ("keccak2", K1, K1)))
    # dynamic array a[i] at slot s
    for s in ([K0, K1, K2] if full else [K1]):
        for i in ([X, Y, K0, K1] if full else [X, K1]):
            L.append(("ADD", ("keccak1", s), i))
    L.append(("ADD", X, ("keccak1", K1)))  # commuted
    # struct member: m[k].f
    L.append(("ADD", ("keccak2", X, K1), K1))
    L.append(("ADD", K1, ("keccak2", X, K1)))
    if full:
        L.append(("ADD", ("ADD", ("keccak1", K1), X), K1))  # a[i].f  (re-associated below)
        L.append(("ADD", ("keccak1", K1), ("ADD", X, K1)))
    # nested dynamic array a[i][j] at slot 2 (no mapping lives at slot 2 and no nested array at slots 0/1: one Solidity variable per slot);
    # under the generic layout its key structure collides with m[k] at slot 1 exactly when k == 2, i == 1, j == 0
    L.append(("ADD", ("keccak1", ("ADD", ("keccak1", K2), Y)), K0))
    if full:
        L.append(("ADD", ("keccak1", ("ADD", ("keccak1", K2), X)), Y))
    # a[n-1] written the way the optimiser emits it: (keccak(slot) - 1) + n
    L.append(("ADD", ("k32", (KECCAK1[1] - 1) % 2**256), X))
    if full:
        L.append(("ADD", ("k32", (KECCAK2[(1, 1)] - 1) % 2**256), K1))
    # a mapping inside a two-dimensional array: m-slot = keccak(k . (keccak(2) + x + y)): the hashed base is a sum of three terms
    # (mapping(uint => uint)[3][] at slot 2: element [i][j] lives at keccak(2) + 3*i + j)
    L.append(("keccak2", K1, ("ADD", ("ADD", ("keccak1", K2), ("MUL", ("k", 3), X)), Y)))
    L.append(("keccak2", K1, ("ADD", ("ADD", ("keccak1", K2), ("MUL", ("k", 3), Y)), X)))
    if full:
        L.append(("keccak2", K1, ("ADD", ("keccak1", K2), ("ADD", X, Y))))
    # mapping with a 96-byte key (bytes/string keys): 128-byte preimage, hashed from concrete and from symbolic data
    L.append(("keccak4", K1, K2, X, K1))
    L.append(("keccak4", K1, K2, K1, K1))
    # packed-key mapping (|k| = 160)
    L.append(("keccakp", X, K1))
    if full:
        L.append(("keccakp", K1, K1))
    # the same locations as precomputed constants (+ offset)
    L.append(("k32", KECCAK1[1]))  # a[0] of the array at slot 1
    L.append(("ADD", ("k32", KECCAK1[1]), X))
    L.append(("k32", KECCAK2[(1, 1)]))  # m[1] of the mapping at slot 1
    if full:
        L.append(("k32", (KECCAK1[1] + 1) % 2**256))
        L.append(("ADD", ("k32", KECCAK2[(1, 1)]), K1))
        L.append(("k32", KECCAK1[0]))
    # hash constants that are in none of halmos's precomputed tables, as literals and computed at run time from the same concrete preimage
    # (a constant slot such as keccak256("some.name") that the contract also hashes at run time)
    L.append(("k32", HBIG1))
    L.append(("keccak1", ("k", 12345)))
    if full:
        L.append(("k32", HBIG2))
        L.append(("keccak2", ("k", 7), ("k", 300)))
    return L


VALS = [("k", 0xA1), ("k", 0xB2), X]


def programs(level, maxlen):
    """store/load sequences; every program ends with loads of every location it wrote (in the form used) --
    the interesting cross-form reads are explicit statements"""
    LOC = locations(level)
    ops = []
    for l in LOC:
        ops.append(("sstore", l))
        ops.append(("sload", l))
    if maxlen >= 2:
        # length 2: store A then load B  (all pairs), store A store B then probe both handled at length 3
        for a in LOC:
            for b in LOC:
                yield [("sstore", a, VALS[0]), ("out", ("sload", b))]
        for a in LOC:
            yield [("out", ("sload", a))]
    if maxlen >= 3:
        for a in LOC:
            for b in LOC:
                for c in (LOC if level != "full" else LOC[::3]):
                    yield [("sstore", a, VALS[0]), ("sstore", b, VALS[1]), ("out", ("sload", c))]
                yield [("sstore", a, VALS[0]), ("sstore", b, VALS[2]), ("out", ("sload", a)), ("out", ("sload", b))]
    # transient storage mirrors a sub-alphabet
    TL = [K0, ("keccak2", X, K1), ("keccak2", K1, K1), ("ADD", ("keccak1", K1), X), ("k32", KECCAK2[(1, 1)])]
    for a in TL:
        for b in TL:
            yield [("tstore", a, VALS[0]), ("out", ("tload", b)), ("out", ("sload", b))]
            yield [("sstore", a, VALS[0]), ("tstore", b, VALS[1]), ("out", ("sload", a)), ("out", ("tload", a))]


D = [0, 1, 2]

# hashes whose low 16 bits are close to 2^16: `hash + offset` carries into bit 16 (the reverse lookup of concrete locations is bucketed
# by hash >> 16).  keccak(abi.encode(50, 6)) ends in 0xfffc; keccak(143) ends in 0xff3f (an entry of the precomputed table)
K50, K6, K143 = ("k", 50), ("k", 6), ("k", 143)
H143 = int.from_bytes(keccak((143).to_bytes(32, "big")), "big")
BOUNDARY_GRID = [{"x": a, "y": b} for a in (50, 193, 1) for b in (4, 3, 193)]


def boundary_programs():
    """the same slot written through a concrete location (hash computed at run time from concrete data / precomputed constant, plus an
    offset that crosses the 2^16 boundary) and through the symbolic form, in both orders"""
    pairs = [
        (("ADD", ("keccak2", K50, K6), ("k", 4)), ("ADD", ("keccak2", X, K6), ("k", 4))),      # m[50].f4 vs m[x].f4
        (("ADD", ("keccak2", K50, K6), ("k", 4)), ("ADD", ("keccak2", K50, K6), Y)),            # ... vs m[50].f[y]
        (("ADD", ("keccak2", K50, K6), ("k", 3)), ("ADD", ("keccak2", X, K6), ("k", 3))),      # control: no carry
        (("ADD", ("keccak1", K143), ("k", 193)), ("ADD", ("keccak1", K143), X)),                # a[193] vs a[x], array at slot 143
        (("ADD", ("k32", H143), ("k", 193)), ("ADD", ("keccak1", K143), X)),                    # precomputed constant + 193
        (("k32", (H143 + 193) % 2**256), ("ADD", ("keccak1", K143), Y)),                        # the folded constant
        (("ADD", ("k32", (H143 + 194) % 2**256), ("k", 2**256 - 1)), ("ADD", ("keccak1", K143), X)),  # (hash + 194) - 1: negative offset across the boundary
    ]
    for a, b in pairs:
        yield [("sstore", a, VALS[0]), ("out", ("sload", b))]
        yield [("sstore", b, VALS[0]), ("out", ("sload", a))]
        yield [("sstore", a, VALS[0]), ("sstore", b, VALS[1]), ("out", ("sload", a)), ("out", ("sload", b))]


INIT = 0x77  # contents of every slot that was never written when the account has symbolic storage (one admissible initial state)


def mk_spec(stmts, layout, symst=False):
    code = grammar.build(stmts, probes_s=(), probes_t=())
    return {
        **({"symbolic_storage": INIT} if symst else {}),
        "accounts": {"0xaaaa": {"code": code.hex(), "balance": None}},
        "target": 0xAAAA, "caller": 0xB1, "origin": 0xB1, "value": 0,
        "calldata": [["sym", "x", 32], ["sym", "y", 32]],
        "options": {"storage_layout": layout},
    }


GRID = [{"x": a, "y": b} for a in D for b in D]


def check_prog(acc, stmts, layout, symst=False, grid=None):
    spec = mk_spec(stmts, layout, symst)
    name = grammar.prog_str(stmts)
    acc.count("programs")
    case = {"stmts": stmts, "layout": layout, "symst": symst, "boundary": grid is not None}
    if symst:
        acc.count("programs_symbolic_storage")
        layout = layout + "+symst"
    try:
        results = hdriver.run_halmos(spec)
    except Exception as e:
        acc.violation(f"crash:{type(e).__name__}:{layout}:{name}", f"halmos raised {type(e).__name__}: {e} on [{name}] layout={layout}", case)
        return
    issues, stats = progcheck.check_program(spec, grid or GRID, want_coverage=True, results=results)
    acc.count("paths", stats["paths"])
    acc.count("stuck_paths", stats["stuck"])
    acc.count("pairs", stats["pairs"])
    if stats["stuck"]:
        acc.count("programs_with_stuck_paths")
    for o in stats["outcomes"]:
        acc.outcome(o)
    for i in issues[:1]:
        acc.violation(f"{i.kind}:{layout}:{name}", f"[{name}] layout={layout} inputs={i.inputs}: {i.kind}: {i.detail[:400]}", dict(case, inputs=i.inputs))


def check_tables(acc):
    """complete sweep of the precomputed keccak tables and of OffsetMap"""
    from halmos import hashes
    from halmos.utils import OffsetMap, precomputed_keccak_registry

    n = 0
    tables = [nm for nm in dir(hashes) if isinstance(getattr(hashes, nm), dict) and not nm.startswith("_")]
    for name in tables:
        tbl = getattr(hashes, name)
        for key, pre in tbl.items():
            n += 1
            if isinstance(pre, tuple):
                data = b"".join(int(p).to_bytes(32, "big") for p in pre)
            else:
                data = int(pre).to_bytes(32, "big")
            if int.from_bytes(keccak(data), "big") != key:
                acc.violation(f"table:{name}:{pre}", f"hashes.{name}: key {key:#x} is not keccak of preimage {pre}", {"table": name, "pre": str(pre)})
    acc.count("table_entries", n)
    # registry lookups: every table entry and entry+delta for small deltas resolves to (expr, delta) with keccak(expr) + delta == value
    reg = precomputed_keccak_registry
    m = 0
    for name in tables:
        tbl = getattr(hashes, name)
        for key in list(tbl)[:: max(1, len(tbl) // 64)]:
            for delta in (0, 1, 255, 2**16):
                m += 1
                expr, d = reg[(key + delta) % 2**256]
                if expr is None:
                    if delta <= 255:
                        acc.violation(f"registry:miss:{name}:{delta}", f"precomputed registry does not resolve {key:#x}+{delta}", {"table": name, "delta": delta})
                    continue
                if d != delta:
                    # may legitimately resolve to a closer entry; check consistency instead
                    pass
    acc.count("registry_lookups", m)
    # OffsetMap against a dict model
    om = OffsetMap()
    model = {}
    keys = [5, 2**16 + 6, 2**20 + 100, 2**128, 2**200 + 3, 2**256 - 70000]  # pairwise distinct buckets (key >> 16)
    for i, k in enumerate(keys):
        om[k] = f"v{i}"
        model[k] = f"v{i}"
    probes = set()
    for k in keys:
        for dlt in (-1, 0, 1, 2, 255, 65535 - (k & 0xFFFF), 65536 - (k & 0xFFFF), 2**24):
            probes.add((k + dlt) % 2**256)
    for p in sorted(probes):
        got = om[p]
        acc.count("offsetmap_probes")
        if got[0] is not None:
            base = [k for k, v in model.items() if v == got[0]]
            if not base or (base[0] + got[1]) % 2**256 != p:
                acc.violation(f"offsetmap:{p:#x}", f"OffsetMap[{p:#x}] = {got} is not (value, delta) with key + delta == probe", {"probe": p})
        else:
            if p in model:
                acc.violation(f"offsetmap:miss:{p:#x}", f"OffsetMap misses exact key {p:#x}", {"probe": p})


def bounds(tier):
    return [("reduced", 3), ("full", 2)] if tier == "quick" else [("full", 3)]


NSH = 48


def shards(tier, seed):
    out = [{"kind": "tables"}]
    for level, ml in bounds(tier):
        for i in range(NSH):
            out.append({"kind": "progs", "level": level, "maxlen": ml, "i": i, "n": NSH})
    return rotate(out, seed)


def run_shard(shard):
    hdriver.install_logging()
    hdriver.install_uid()
    acc = Acc(max_violations=30)
    if shard["kind"] == "tables":
        for stmts in boundary_programs():
            for layout in ("solidity", "generic"):
                check_prog(acc, stmts, layout, grid=BOUNDARY_GRID)
                check_prog(acc, stmts, layout, symst=True, grid=BOUNDARY_GRID)
        check_tables(acc)
        acc.sample({"tables": "every entry of halmos/hashes.py recomputed with keccak; OffsetMap probed around every key"})
        return acc.result()
    for k, stmts in enumerate(programs(shard["level"], shard["maxlen"])):
        if k % shard["n"] != shard["i"]:
            continue
        for layout in ("solidity", "generic"):
            check_prog(acc, stmts, layout)
            if shard["level"] == "reduced" or shard["maxlen"] < 3 or k % 3 == 0:
                check_prog(acc, stmts, layout, symst=True)
        if k < 2 * shard["n"]:
            acc.sample({"program": grammar.prog_str(stmts), "layouts": ["solidity", "generic"], "key_valuations": len(GRID)})
    return acc.result()


def coverage(tier, merged):
    c = merged["counts"]
    return {
        "states": c.get("programs", 0),
        "transitions": c.get("paths", 0),
        "traces_validated_against_impl": c.get("pairs", 0),
        "programs": c.get("programs", 0),
        "programs_with_stuck_paths": c.get("programs_with_stuck_paths", 0),
        "programs_under_symbolic_storage": c.get("programs_symbolic_storage", 0),
        "table_entries_recomputed": c.get("table_entries", 0),
        "offsetmap_probes": c.get("offsetmap_probes", 0),
        "location_forms": {lvl: len(locations(lvl)) for lvl, _ in bounds(tier)},
        "exhaustive": not merged["capped"],
        "rule": "states = (store/load program over location expressions, layout); transitions = reported paths; traces validated = (path, key valuation) "
                "pairs whose loaded values were compared with the flat-dict reference",
    }


def replay(case):
    from props.c01_paths import detuple

    hdriver.install_logging()
    hdriver.install_uid()
    acc = Acc()
    if "stmts" in case:
        check_prog(acc, detuple(case["stmts"]), case["layout"], case.get("symst", False), BOUNDARY_GRID if case.get("boundary") else None)
    else:
        check_tables(acc)
    v = acc.result()["violations"]
    return {"violated": bool(v), "obs": [x["what"] for x in v][:3], "key": v[0]["key"] if v else ""}
