"""C18 - configuration resolves by precedence and round-trips.

Complete sweeps (input enumeration, level `exploration`):

 fold      for every option of a set (quick: 10 representative, thorough: every field), every stack of <= 4 (thorough 5)
           layers over {config_file, contract_annotation, function_annotation, command_line}, each layer built by the
           real parsers (argparse / TomlParser) and setting the option or not, with values that include the falsy ones
           (0, "", '*', false): effective value and source must equal the reference fold (rank, then recency).
 solver    --solver-command vs --solver over all source pairs.
 roundtrip every value of the structured grammars (timeouts, error-code sets, array-length maps, CSV lists, trace events)
           through unparse/parse, and through the `python -m halmos.config` TOML emission + TomlParser.
 malformed strings outside the documented syntax must raise.
 scoping   generated artefacts with every subset of annotation placements (contract-level natspec, function-level devdoc,
           on two contracts that share function signatures) x toml x command line, run through halmos.__main__._main;
           the configuration each setUp()/test actually receives is recorded and compared with the reference fold.
"""

from __future__ import annotations

import contextlib
import io
import itertools
import sys

from mc import e2e, hdriver
from mc.core import Acc, rotate

ID = "C18"
LEVEL = "exploration"
ASSUMPTIONS = [
    "reference: value(opt) = value of the layer with the greatest (source rank, position) among layers that set opt; a layer sets an option iff it carries a non-None value; ranks default < config_file < contract_annotation < function_annotation < command_line",
    "layers are produced by halmos's own argparse parser (annotations, command line) and TomlParser (config file), as load_config/with_natspec/with_devdoc do",
    "malformed = no reading of the documented syntax accepts it (non-numeric token, unknown unit, missing '=', unbalanced brace, unknown trace event, empty required list); lenient forms ('1,,2', surrounding blanks, python float syntax) are not called malformed",
    "scoping is observed at the seam halmos.__main__.run_test / setup (module attributes rebound in the harness process): the FunctionContext.args each function receives",
]

SRC = ["config_file", "contract_annotation", "function_annotation", "command_line"]
RANK = {"default": 1, "config_file": 2, "contract_annotation": 3, "function_annotation": 4, "command_line": 5}

# option -> (cli values, toml values) ; each value: (cli token(s) | None, toml literal | None, expected python value)
INT_VALUES = [0, 1, 3, 7, 11]


def option_values(field):
    """list of (argv list, toml line or None, expected value) for a config field"""
    from halmos.config import Config  # noqa

    name = field.name
    flag = "--" + name.replace("_", "-")
    action = field.metadata.get("action")
    if field.type is bool:
        return [([flag], f"{name} = true", True), (None, f"{name} = false", False), ([flag], f"{name} = true", True)]
    if field.metadata.get("countable"):
        return [([flag], f"{name} = 1", 1), ([flag, flag], f"{name} = 2", 2), ([flag, flag, flag], f"{name} = 0", None)]
    if field.metadata.get("choices"):
        ch = field.metadata["choices"]
        return [([flag, c], f'{name} = "{c}"', c) for c in ch]
    if action is not None:
        an = action.__name__
        if an == "ParseTimeout":
            raw = ["0", "1", "250ms", "3s", "2m"]
        elif an == "ParseErrorCodes":
            raw = ["*", "0x01", "0x11,0x32", "1,2,3", "0x41"]
        elif an == "ParseArrayLengths":
            raw = ["x=1", "x={0,2},y=3", "a.b={1}", "x=0", "z={65,0}"]
        elif an == "ParseCSVInt":
            raw = ["0", "1,2", "65,0", "3", "0,1,2"]
        elif an == "ParseCSVTraceEvent":
            raw = ["", "LOG", "LOG,SSTORE", "SLOAD", "SSTORE,SLOAD,LOG"]
        else:
            raise ValueError(an)
        return [([flag, r], f'{name} = "{r}"', action.parse(r)) for r in raw]
    if field.type is int:
        return [([flag, str(v)], f"{name} = {v}", v) for v in INT_VALUES]
    # strings
    vals = ["", "a", "b c", "d", "e"]
    return [([flag, v], f'{name} = "{v}"', v) for v in vals]


def config_fields():
    from dataclasses import fields

    from halmos.config import Config, internal

    return [f for f in fields(Config) if not f.metadata.get(internal, False)]


QUICK_FIELDS = ["loop", "width", "ffi", "verbose", "panic_error_codes", "solver_timeout_assertion", "array_lengths", "default_bytes_lengths", "trace_events", "solver_command", "storage_layout", "early_exit"]


def build_layer(base, source, field, choice):
    """apply one layer to `base` exactly the way halmos does for that source; returns (config, set?, expected value)"""
    from halmos.config import ConfigSource, arg_parser, toml_parser

    argv, toml_line, want = choice
    if source == "config_file":
        if toml_line is None:
            return None
        overrides = toml_parser().parse_str("[global]\n" + toml_line + "\n")
        return base.with_overrides(ConfigSource.config_file, **overrides), True, want
    if argv is None:
        return None
    ns = arg_parser().parse_args(argv)
    return base.with_overrides(getattr(ConfigSource, source), **vars(ns)), True, want


def empty_layer(base, source):
    from halmos.config import ConfigSource, arg_parser, toml_parser

    if source == "config_file":
        return base.with_overrides(ConfigSource.config_file, **toml_parser().parse_str("[global]\n"))
    return base.with_overrides(getattr(ConfigSource, source), **vars(arg_parser().parse_args([])))


def fold_check(acc, field, max_layers):
    from halmos.config import default_config

    name = field.name
    choices = option_values(field)
    dflt = object.__getattribute__(default_config(), name)
    for L in range(1, max_layers + 1):
        for srcs in itertools.product(SRC, repeat=L):
            for setmask in itertools.product((False, True), repeat=L):
                if not any(setmask):
                    continue
                cfg = default_config()
                layers = []  # (rank, position, value)
                ok = True
                for pos, (src, st) in enumerate(zip(srcs, setmask)):
                    if not st:
                        cfg = empty_layer(cfg, src)
                        continue
                    choice = choices[pos % len(choices)]
                    if choice[2] is None:  # value that cannot be expressed in this source
                        cfg = empty_layer(cfg, src)
                        continue
                    r = build_layer(cfg, src, field, choice)
                    if r is None:
                        cfg = empty_layer(cfg, src)
                        continue
                    cfg, _, want = r
                    layers.append((RANK[src], pos, want, src))
                acc.count("fold_stacks")
                if layers:
                    best = max(layers, key=lambda t: (t[0], t[1]))
                    want_v, want_s = best[2], best[3]
                else:
                    want_v, want_s = dflt, "default"
                got_v = getattr(cfg, name)
                got2, got_s = cfg.value_with_source(name)
                if got_v != want_v or got2 != want_v or got_s.name != want_s:
                    key = f"fold:{name}:{'>'.join(s[:2] + ('*' if m else '-') for s, m in zip(srcs, setmask))}"
                    acc.violation(key, f"option {name}: layers (bottom to top) {[(s, 'sets' if m else '-') for s, m in zip(srcs, setmask)]} with values {[l[2] for l in layers]}: "
                                       f"effective value {got_v!r} from {got_s.name}, reference fold says {want_v!r} from {want_s}",
                                  {"kind": "fold", "field": name, "srcs": list(srcs), "mask": list(setmask)})
                    return
                acc.outcome((name, want_s, repr(want_v)[:20]))
    acc.state(("fold", name))


def solver_check(acc):
    from halmos.config import ConfigSource, default_config

    sources = ["none"] + SRC
    for s_solver, s_cmd in itertools.product(["default"] + SRC, sources):
        for order in (0, 1):
            acc.count("solver_cases")
            cfg = default_config()
            steps = []
            if s_solver != "default":
                steps.append((s_solver, {"solver": "z3"}))
            if s_cmd != "none":
                steps.append((s_cmd, {"solver_command": "mysolver --flag"}))
            if order:
                steps.reverse()
            for src, ov in steps:
                cfg = cfg.with_overrides(getattr(ConfigSource, src), **ov)
            try:
                got = cfg.resolved_solver_command
            except Exception as e:
                got = [f"<{type(e).__name__}>"]
            cmd_wins = s_cmd != "none" and RANK[s_cmd] >= RANK[s_solver]
            ok = (got[:2] == ["mysolver", "--flag"]) == cmd_wins
            if not cmd_wins:
                want_bin = "z3" if s_solver != "default" else "yices"
                ok = ok and want_bin in got[0]
            if not ok:
                acc.violation(f"solver:{s_solver}:{s_cmd}:{order}", f"--solver from {s_solver}, --solver-command from {s_cmd} (applied {'command first' if order else 'solver first'}): resolved command {got}, expected the {'custom command' if cmd_wins else 'named solver'}",
                              {"kind": "solver"})
            acc.outcome(("solver", cmd_wins))
    acc.state("solver")


# ---------------------------------------------------------------------------
# round trips
# ---------------------------------------------------------------------------


def timeout_strings():
    out = []
    for n in ("0", "1", "29", "59", "60", "61", "500", "999", "1000", "1001", "1500", "90000", "0.5", "1.5", "2.25", "0.001"):
        for u in ("", "ms", "s", "m", "h"):
            out.append(n + u)
    return out


def roundtrip_check(acc):
    from halmos.config import ParseArrayLengths, ParseCSVInt, ParseCSVTraceEvent, ParseErrorCodes, ParseTimeout, TraceEvent

    def rt(kind, action, s):
        acc.count("roundtrips")
        try:
            v = action.parse(s)
        except Exception as e:
            acc.violation(f"rt-parse:{kind}:{s}", f"{kind}: documented value {s!r} rejected: {type(e).__name__}: {e}", {"kind": "roundtrip"})
            return
        try:
            u = action.unparse(v)
            v2 = action.parse(u)
        except Exception as e:
            acc.violation(f"rt-unparse:{kind}:{s}", f"{kind}: {s!r} parses to {v!r} but unparse/parse raises {type(e).__name__}: {e}", {"kind": "roundtrip"})
            return
        if v2 != v:
            acc.violation(f"rt:{kind}:{s}", f"{kind}: {s!r} parses to {v!r}, unparses to {u!r}, which parses to {v2!r}", {"kind": "roundtrip"})
        acc.outcome((kind, repr(v)[:24]))

    for s in timeout_strings():
        rt("timeout", ParseTimeout, s)
    codes = ["0x00", "0x01", "0x11", "0x32", "0x41", "255", "256", "0x1234"]
    rt("error-codes", ParseErrorCodes, "*")
    for k in (1, 2, 3):
        for combo in itertools.combinations(codes, k):
            rt("error-codes", ParseErrorCodes, ",".join(combo))
            rt("error-codes", ParseErrorCodes, " , ".join(combo))
    names = ["x", "a.b", "c[0]", "y"]
    sizes = [[0], [1], [2, 0], [0, 1, 2], [33], [65, 1024]]
    for n1, s1 in itertools.product(names, sizes):
        rt("array-lengths", ParseArrayLengths, f"{n1}={{{','.join(map(str, s1))}}}")
        if len(s1) == 1:
            rt("array-lengths", ParseArrayLengths, f"{n1}={s1[0]}")
        for n2, s2 in itertools.product(names, sizes[:4]):
            if n1 != n2:
                rt("array-lengths", ParseArrayLengths, f"{n1}={{{','.join(map(str, s1))}}},{n2}={{{','.join(map(str, s2))}}}")
    for k in (1, 2, 3):
        for combo in itertools.product(["0", "1", "65", "1024"], repeat=k):
            rt("csv-int", ParseCSVInt, ",".join(combo))
    evs = [e.value for e in TraceEvent]
    rt("trace-events", ParseCSVTraceEvent, "")
    for k in (1, 2, 3):
        for combo in itertools.permutations(evs, k):
            rt("trace-events", ParseCSVTraceEvent, ",".join(combo))
    acc.state("roundtrip")


MALFORMED = {
    "ParseTimeout": ["abc", "5x", "ms", "s", "1..5s", "ten", "5d", "1,5s", "--", "1s2", "-5s", "-1", "nan", "nans", "inf", "infms", "1e400s", "5sms", "10ss", "2mm", "1hh"],
    "ParseErrorCodes": ["", ",", "abc", "0x", "{1}", "*,1", "1;2", "0x01 0x02", "-1", "1,-2", "0x-1", str(2**256)],
    "ParseArrayLengths": ["x", "x=", "x={1,2", "x=1,2}", "=3", "x={a}", "x=1;y=2", "x={}", "x=={1}", "{1,2}"],
    "ParseCSVInt": ["", ",", "a,b", "1;2", "1.5", "0x10", "-1", "1,-2"],
    "ParseCSVTraceEvent": ["FOO", "LOG,FOO", "log", "LOG;SSTORE"],
}


def malformed_check(acc):
    import halmos.config as hc

    for an, bad in MALFORMED.items():
        action = getattr(hc, an)
        for s in bad:
            acc.count("malformed_cases")
            try:
                v = action.parse(s)
            except Exception:
                continue
            acc.violation(f"malformed:{an}:{s}", f"{an}.parse({s!r}) accepted a malformed value and returned {v!r}", {"kind": "malformed"})
    # through the command line and the config file as well
    from halmos.config import arg_parser, toml_parser

    for flag, s in (("--solver-timeout-assertion", "5x"), ("--panic-error-codes", "abc"), ("--array-lengths", "x={1,2"), ("--default-array-lengths", "a,b"), ("--loop", "two"), ("--storage-layout", "vyper")):
        acc.count("malformed_cases")
        buf = io.StringIO()
        try:
            with contextlib.redirect_stderr(buf), contextlib.redirect_stdout(buf):
                ns = arg_parser().parse_args([flag, s])
        except (SystemExit, Exception):
            continue
        acc.violation(f"malformed-cli:{flag}:{s}", f"command line {flag} {s!r} accepted: {getattr(ns, flag[2:].replace('-', '_'))!r}", {"kind": "malformed"})
    for line in ('solver-timeout-assertion = "5x"', 'panic-error-codes = "abc"', 'array-lengths = "x={1,2"', 'default-bytes-lengths = ""'):
        acc.count("malformed_cases")
        try:
            r = toml_parser().parse_str("[global]\n" + line + "\n")
        except (SystemExit, Exception):
            continue
        acc.violation(f"malformed-toml:{line}", f"config file line {line!r} accepted: {r!r}", {"kind": "malformed"})
    # native (non-string) TOML values of options that have a value grammar: either rejected, or they mean what the same text means on
    # the command line (a unit-less timeout is milliseconds; `default-array-lengths = 3` is the one-element list)
    for opt, vals in (("solver-timeout-assertion", (500, 0, 2.5, 1500)), ("solver-timeout-branching", (0, 7)), ("panic-error-codes", (17,)), ("default-array-lengths", (3,)),
                      ("default-bytes-lengths", (65,)), ("loop", (7,)), ("width", (0,)), ("invariant-depth", (3,))):
        for v in vals:
            acc.count("malformed_cases")
            field = opt.replace("-", "_")
            buf = io.StringIO()
            try:
                with contextlib.redirect_stderr(buf), contextlib.redirect_stdout(buf):
                    want = getattr(arg_parser().parse_args([f"--{opt}", str(v)]), field)
            except (SystemExit, Exception):
                want = None
            try:
                got = toml_parser().parse_str(f"[global]\n{opt} = {v}\n").get(field)
            except (SystemExit, Exception):
                continue  # rejected
            if want is None or got != want or type(got) is not type(want):
                acc.violation(f"toml-native:{opt}:{v}", f"config file line `{opt} = {v}` (a native TOML value) gives {got!r}; the command line `--{opt} {v}` gives {want!r}", {"kind": "malformed"})
    # plain options (no value grammar of their own) in the config file: a value of the wrong TOML type, or outside the option's choices,
    # is rejected; it must never be stored as is (a non-empty string where a flag is expected would read as `true`)
    from dataclasses import fields

    from halmos.config import Config

    byname = {f.name: f for f in fields(Config)}
    WRONG = {bool: ['"false"', '"true"', "1", "0", '"yes"', "[true]"], int: ['"three"', '"7"', "[1, 2]", "1.5", "true"], str: ["7", "true", "[1]"]}
    for opt in ("ffi", "early-exit", "symbolic-jump", "cache-solver", "loop", "depth", "width", "solver-threads", "storage-layout", "solver", "function", "contract"):
        f = byname[opt.replace("-", "_")]
        for v in WRONG[f.type] + (['"bogus"'] if f.metadata.get("choices") else []):
            acc.count("malformed_cases")
            try:
                got = toml_parser().parse_str(f"[global]\n{opt} = {v}\n").get(f.name)
            except (SystemExit, Exception):
                continue  # rejected
            acc.violation(f"toml-type:{opt}:{v}", f"config file line `{opt} = {v}` is accepted and stored as {got!r} although --{opt} is a {'flag' if f.type is bool else f.type.__name__ + ' option'}"
                          + (f" with choices {f.metadata['choices']}" if f.metadata.get("choices") else ""), {"kind": "malformed"})
        # and the well-typed values are kept
        good = {bool: ("true", True), int: ("3", 3), str: (f'"{(f.metadata.get("choices") or ["abc"])[-1]}"', (f.metadata.get("choices") or ["abc"])[-1])}[f.type]
        acc.count("malformed_cases")
        try:
            got = toml_parser().parse_str(f"[global]\n{opt} = {good[0]}\n").get(f.name)
        except (SystemExit, Exception) as e:
            got = f"rejected ({type(e).__name__})"
        if got != good[1] or type(got) is not type(good[1]):
            acc.violation(f"toml-type-good:{opt}", f"config file line `{opt} = {good[0]}` gives {got!r}, expected {good[1]!r}", {"kind": "malformed"})
    acc.state("malformed")


def toml_emission_check(acc):
    """`python -m halmos.config <args>` -> TOML text -> TomlParser -> config_file layer: every option keeps its value"""
    import halmos.config as hc

    cases = []
    for f in config_fields():
        if f.name in ("config", "root", "version", "trace_memory") or f.metadata.get("group") == hc.deprecated:
            continue
        for argv, _, want in option_values(f):
            if argv is None or want is None:
                continue
            cases.append((f.name, argv, want))
    for name, argv, want in cases:
        acc.count("toml_emissions")
        buf = io.StringIO()
        old = sys.argv
        sys.argv = ["halmos.config"] + argv
        try:
            with contextlib.redirect_stdout(buf):
                hc.main()
        except SystemExit:
            pass
        finally:
            sys.argv = old
        text = buf.getvalue()
        try:
            ov = hc.toml_parser().parse_str(text)
            cfg = hc.default_config().with_overrides(hc.ConfigSource.config_file, **ov)
            got = getattr(cfg, name)
        except BaseException as e:  # noqa
            got = f"<{type(e).__name__}: {e}>"
        if got != want:
            acc.violation(f"toml-emit:{name}:{' '.join(argv)}", f"`python -m halmos.config {' '.join(argv)}` emits a config file that reads back {name} = {got!r}, expected {want!r}", {"kind": "toml"})
        acc.outcome(("toml", name))
    acc.state("toml-emission")


# ---------------------------------------------------------------------------
# annotation scoping through _main
# ---------------------------------------------------------------------------

PLACEMENTS = ["A:contract", "A:setUp()", "A:check_1()", "B:check_1()", "B:contract"]
ANN_VALUE = {"A:contract": 11, "A:setUp()": 12, "A:check_1()": 13, "B:check_1()": 14, "B:contract": 15}


# the placements of a contract-level annotation that halmos documents (build.parse_natspec): one line, continuation lines, a tag that
# starts in the middle of a line, several tags, other tags around it
NATSPEC_LAYOUTS = [
    "@custom:halmos --loop {v}",
    "@custom:halmos --width 7\n                --loop {v}",
    "some text @custom:halmos\n --loop {v}\n@notice trailing text --loop 99",
    "@custom:halmos --width 7\n@custom:halmos --loop {v}",
    "@title T\n@custom:halmos\n--width 7\n--loop {v}\n@dev --loop 98",
]


def scoping_contracts(placements):
    cs = []
    for cname in ("A", "B"):
        funcs = {"setUp()": ["STOP"], "check_1()": ["STOP"], "check_2()": ["STOP"]}
        devdoc = {}
        natspec = None
        for p in placements:
            c, where = p.split(":")
            if c != cname:
                continue
            if where == "contract":
                natspec = NATSPEC_LAYOUTS[(len(placements) + ANN_VALUE[p]) % len(NATSPEC_LAYOUTS)].replace("--loop {v}", "--loop {v} --solver-max-memory {v}").format(v=ANN_VALUE[p])
            else:
                devdoc[where] = f"--loop {ANN_VALUE[p]} --solver-max-memory {ANN_VALUE[p]}"
        cs.append(e2e.Contract(cname, funcs, natspec=natspec, devdoc=devdoc, filename=f"{cname}.t.sol"))
    return cs


class Recorder:
    def __init__(self):
        self.seen = []
        self.setup_solver = {}
        self.last_solver_memory = None

    def install(self):
        import halmos.__main__ as hm

        if getattr(hm, "_verif_rec", None) is not None:
            hm._verif_rec = self
            return
        hm._verif_rec = self
        orig_run_test, orig_setup = hm.run_test, hm.setup

        def run_test(ctx):
            hm._verif_rec.seen.append((ctx.contract_ctx.name, ctx.info.sig, ctx.args.value_with_source("loop")))
            return orig_run_test(ctx)

        def setup(ctx):
            hm._verif_rec.seen.append((ctx.contract_ctx.name, ctx.info.sig, ctx.args.value_with_source("loop")))
            # the solver run_contract has just built for the setup phase (mk_solver reads --solver-timeout-branching / --solver-max-memory)
            hm._verif_rec.setup_solver[ctx.contract_ctx.name] = hm._verif_rec.last_solver_memory
            return orig_setup(ctx)

        orig_mk_solver = hm.mk_solver

        def mk_solver(args, *a, **kw):
            hm._verif_rec.last_solver_memory = args.solver_max_memory
            return orig_mk_solver(args, *a, **kw)

        hm.run_test, hm.setup, hm.mk_solver = run_test, setup, mk_solver


def scoping_case(acc, placements, toml_set, cli_set):
    rec = Recorder()
    rec.install()
    cs = scoping_contracts(placements)
    argv = ["--loop", "21", "--solver-max-memory", "21"] if cli_set else []
    toml = "[global]\nloop = 5\nsolver-max-memory = 5\n" if toml_set else None
    res, out, logs, exc = e2e.run_main(cs, argv=argv, toml=toml)
    acc.count("scoping_runs")
    case = {"kind": "scoping", "placements": list(placements), "toml": toml_set, "cli": cli_set}
    name = f"{'+'.join(placements) or 'none'}:toml={int(toml_set)}:cli={int(cli_set)}"
    if exc is not None or res is None:
        acc.violation(f"scoping-crash:{name}", f"_main failed for annotation placements {placements}: {exc!r} {out[-300:]}", case)
        return
    seen = {(c, f): v for c, f, v in rec.seen}
    for cname in ("A", "B"):
        for f in ("setUp()", "check_1()", "check_2()"):
            layers = [(1, 2)]
            if toml_set:
                layers.append((2, 5))
            if f"{cname}:contract" in placements:
                layers.append((3, ANN_VALUE[f"{cname}:contract"]))
            if f"{cname}:{f}" in placements:
                layers.append((4, ANN_VALUE[f"{cname}:{f}"]))
            if cli_set:
                layers.append((5, 21))
            want = max(layers)[1]
            got = seen.get((cname, f))
            acc.count("scoping_functions")
            if got is None:
                acc.violation(f"scoping-missing:{name}:{cname}.{f}", f"placements {placements}: {cname}.{f} was not run (output: {out[-200:]})", case)
                return
            if got[0] != want:
                acc.violation(f"scoping:{name}:{cname}.{f}", f"annotation placements {placements}, toml={toml_set}, cli={cli_set}: {cname}.{f} ran with --loop {got[0]} (from {got[1].name}); reference fold says {want}", case)
                return
            # ... and is attributed to the source that set it (cross-option rules such as --solver vs --solver-command compare sources)
            if int(got[1]) != max(layers)[0]:
                acc.violation(f"scoping-source:{name}:{cname}.{f}", f"annotation placements {placements}, toml={toml_set}, cli={cli_set}: {cname}.{f} got --loop {got[0]} attributed to source {got[1].name} ({int(got[1])}); "
                              f"the winning layer has rank {max(layers)[0]} (1 default, 2 config file, 3 contract annotation, 4 function annotation, 5 command line)", case)
                return
            acc.outcome(("scoping", want))
            if f == "setUp()":
                # the setup phase really runs with the solver options of setUp()'s own configuration
                mem = rec.setup_solver.get(cname)
                want_mem = want if max(layers)[0] > 1 else None
                if mem is not None and want_mem is not None and mem != want_mem:
                    acc.violation(f"scoping-solver:{name}:{cname}", f"annotation placements {placements}, toml={toml_set}, cli={cli_set}: the solver of {cname}.setUp() was built with --solver-max-memory {mem}; "
                                  f"setUp()'s configuration says {want_mem}", case)
                    return
    acc.state(("scoping", name))


def scoping_cases(tier):
    out = []
    for k in range(len(PLACEMENTS) + 1):
        for pl in itertools.combinations(PLACEMENTS, k):
            for toml_set, cli_set in itertools.product((False, True), repeat=2):
                if tier == "quick" and (toml_set and cli_set) and k > 2:
                    continue
                out.append((list(pl), toml_set, cli_set))
    return out


# ---------------------------------------------------------------------------


def shards(tier, seed):
    out = [{"kind": "solver"}, {"kind": "roundtrip"}, {"kind": "malformed"}, {"kind": "toml"}]
    names = [f.name for f in config_fields()] if tier == "thorough" else QUICK_FIELDS
    for n in names:
        out.append({"kind": "fold", "field": n, "layers": 5 if tier == "thorough" else 4})
    sc = scoping_cases(tier)
    n = 24
    for i in range(n):
        out.append({"kind": "scoping", "cases": sc[i::n]})
    return rotate(out, seed)


def run_shard(shard):
    hdriver.install_logging()
    hdriver.install_uid()
    acc = Acc(max_violations=30)
    k = shard["kind"]
    if k == "solver":
        solver_check(acc)
        acc.sample({"solver_precedence": "every (source of --solver, source of --solver-command, application order)"})
    elif k == "roundtrip":
        roundtrip_check(acc)
        acc.sample({"roundtrip_examples": ["1500ms", "0x11,0x32", "x={0,2},y={3}", "65,0", "LOG,SSTORE"]})
    elif k == "malformed":
        malformed_check(acc)
    elif k == "toml":
        toml_emission_check(acc)
    elif k == "fold":
        f = [x for x in config_fields() if x.name == shard["field"]][0]
        fold_check(acc, f, shard["layers"])
        acc.sample({"fold_option": f.name, "max_layers": shard["layers"], "values": [repr(c[2]) for c in option_values(f)]})
    elif k == "scoping":
        for pl, t, c in shard["cases"]:
            scoping_case(acc, pl, t, c)
        if shard["cases"]:
            acc.sample({"annotation_placements": shard["cases"][0][0], "toml": shard["cases"][0][1], "cli": shard["cases"][0][2]})
    return acc.result()


def coverage(tier, merged):
    c = merged["counts"]
    ev = sum(c.get(k, 0) for k in ("fold_stacks", "solver_cases", "roundtrips", "malformed_cases", "toml_emissions", "scoping_functions"))
    return {
        "evaluations": ev,
        "distinct_nontrivial": len(merged["outcomes"]),
        "fold_stacks": c.get("fold_stacks", 0),
        "solver_precedence_cases": c.get("solver_cases", 0),
        "roundtrips": c.get("roundtrips", 0),
        "malformed_cases": c.get("malformed_cases", 0),
        "toml_emissions": c.get("toml_emissions", 0),
        "scoping_runs_of_main": c.get("scoping_runs", 0),
        "scoping_functions_checked": c.get("scoping_functions", 0),
        "exhaustive": not merged["capped"],
        "rule": "one evaluation = one layer stack folded / one solver source pair / one structured value round-tripped / one malformed string / one emitted config file / one function's effective "
                "configuration in a generated project; distinct_nontrivial = distinct (option, winning source, winning value) / (kind, value) outcomes observed",
    }


def replay(case):
    hdriver.install_logging()
    hdriver.install_uid()
    acc = Acc()
    k = case["kind"]
    if k == "fold":
        f = [x for x in config_fields() if x.name == case["field"]][0]
        fold_check(acc, f, len(case["srcs"]))
    elif k == "solver":
        solver_check(acc)
    elif k == "roundtrip":
        roundtrip_check(acc)
    elif k == "malformed":
        malformed_check(acc)
    elif k == "toml":
        toml_emission_check(acc)
    else:
        scoping_case(acc, case["placements"], case["toml"], case["cli"])
    v = acc.result()["violations"]
    return {"violated": bool(v), "obs": [x["what"] for x in v][:3], "key": v[0]["key"] if v else ""}
